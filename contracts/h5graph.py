"""C09 / C02 / C01: H5Writer functions over the symbolic link graph (T-h5): what each one links,
creates and deletes, and that nothing outside that footprint changes."""
from __future__ import annotations

import z3

from pyvc.contracts import Contract
from pyvc.core import RaiseSig, fresh_name
from pyvc.interp import EngineCallable
from pyvc.models_h5 import H5Node, H5State
from pyvc.values import SV, AbsObj, Maybe, Obj, Opaque, mk, sym, to_z3, zbool

A = lambda s: to_z3(s)
KINDS = {"data": "Data", "object": "Objects", "group": "Groups"}
TKINDS = {"data": "Data types", "object": "Object types", "group": "Group types"}


def classes():
    from geoh5py.data import FloatData
    from geoh5py.data.data_type import DataType
    from geoh5py.groups import ContainerGroup, RootGroup
    from geoh5py.groups.group_type import GroupType
    from geoh5py.objects import Points
    from geoh5py.objects.object_type import ObjectType

    return {"data": FloatData, "object": Points, "group": ContainerGroup, "root": RootGroup}, {"data": DataType, "object": ObjectType, "group": GroupType}


class F:
    """Symbolic file with the skeleton of WF(a) as precondition, plus ghost accessors."""

    def __init__(self, ctx):
        st = H5State()
        self.st = st
        self.pre = st.snapshot()
        self.proj_name = z3.Int(fresh_name("project_name"))
        ctx.path.ghost["h5_project_name"] = self.proj_name
        lit = [A(x) for x in ("Data", "Groups", "Objects", "Types", "Root", "Type", "Data types", "Group types", "Object types", "PropertyGroups", "Concatenated Data", "ID")]
        ctx.assume(z3.And(*[self.proj_name != x for x in lit]))
        ctx.assume(z3.And(st.root >= 1, st.root < st.next))
        self.file = H5Node(st, st.root, is_file=True)
        p0 = self.pre
        self.proj = p0.link(p0.root, self.proj_name)
        self.cont = {k: p0.link(self.proj, A(v)) for k, v in KINDS.items()}
        self.types = p0.link(self.proj, A("Types"))
        self.tcont = {k: p0.link(self.types, A(v)) for k, v in TKINDS.items()}
        nodes = [self.proj, self.types] + list(self.cont.values()) + list(self.tcont.values())
        # skeleton present, every node in use is below `next`, skeleton nodes pairwise distinct
        ctx.assume(z3.And(*[z3.And(n >= 1, n < st.next) for n in nodes]))
        ctx.assume(z3.Distinct(*([st.root] + nodes)))
        n, nm = z3.Int(fresh_name("n")), z3.Int(fresh_name("nm"))
        # links only lead to nodes in use
        ctx.assume(z3.ForAll([n, nm], z3.And(p0.link(n, nm) >= 0, p0.link(n, nm) < st.next), patterns=[p0.link(n, nm)]))
        # WF(e) ownership: the skeleton nodes are nobody's child container or entity node
        self.skeleton = [st.root] + nodes
        for c in list(self.cont.values()) + list(self.tcont.values()):
            ctx.assume(z3.ForAll([nm], z3.And(*[p0.link(c, nm) != s for s in self.skeleton]), patterns=[p0.link(c, nm)]))
        self.ctx = ctx

    def owned_container(self, node, kind_name):
        """precondition helper: the child container of an entity node is a node of its own"""
        c = self.pre.link(node, A(kind_name))
        return z3.And(*[c != s for s in self.skeleton], c != node)

    def uname(self, I, uid):
        """name under which an identifier is stored: as_str_if_uuid(uid)"""
        from geoh5py.shared.utils import as_str_if_uuid

        un = to_z3(I.call_function(as_str_if_uuid, [uid], {}))
        # "{...}" never coincides with a fixed member name of the layout (T-py string fact)
        lits = [A(x) for x in ("Data", "Groups", "Objects", "Types", "Root", "Type", "Data types", "Group types", "Object types", "PropertyGroups", "Concatenated Data", "ID")]
        I.path.assume(z3.And(*[un != x for x in lits], un != self.proj_name))
        # as_str_if_uuid is injective on identifiers (T-py string fact, audited natively)
        seen = I.path.ghost.setdefault("unames", [])
        uz = to_z3(uid)
        for (u2, n2) in seen:
            if not u2.eq(uz):
                I.path.assume(z3.Implies(u2 != uz, n2 != un))
        if not any(u2.eq(uz) for u2, _ in seen):
            seen.append((uz, un))
        return un

    def flat(self, st, kind, uname):
        return st.link(self.cont[kind], uname)

    def unchanged_except(self, nodes, what=("links", "attrs", "dset")):
        """forall n not in nodes: links'[n] == links[n] (resp. attrs, dset)"""
        st, p0 = self.st, self.pre
        n = z3.Int(fresh_name("n"))
        outside = z3.And(*[n != x for x in nodes]) if nodes else z3.BoolVal(True)
        parts = []
        if "links" in what:
            parts.append(z3.Select(st.links, n) == z3.Select(p0.links, n))
        if "attrs" in what:
            parts.append(z3.Select(st.attrs, n) == z3.Select(p0.attrs, n))
        if "dset" in what:
            parts.append(z3.Select(st.dset, n) == z3.Select(p0.dset, n))
        return z3.ForAll([n], z3.Implies(z3.And(outside, n >= 0, n < p0.next), z3.And(*parts)))


def entity(ctx, kind, tag="entity", parent=None):
    ecls, tcls = classes()
    uid = sym(tag + "_uid", "uid")
    name = sym(tag + "_name", "str")
    tkind = "group" if kind == "root" else kind
    et = AbsObj(tag + ".entity_type", {"uid": sym(tag + "_type_uid", "uid"), "name": sym(tag + "_type_name", "str"), "on_file": False}, cls=tcls[tkind])
    e = AbsObj(tag, {"uid": uid, "name": name, "entity_type": et, "on_file": False, "parent": parent, "workspace": Opaque("workspace")}, cls=ecls[kind])
    return e


class FetchHandle(Contract):
    target = "geoh5py/io/h5_writer.py::H5Writer.fetch_handle"
    props = ("C09", "C02")

    def cases(self):
        return ["data", "object", "group", "data-type", "object-type", "group-type"]

    def setup(self, ctx):
        from geoh5py.io.h5_writer import H5Writer

        f = F(ctx)
        if ctx.case.endswith("-type"):
            _, tcls = classes()
            e = AbsObj("entity_type", {"uid": sym("type_uid", "uid"), "name": sym("type_name", "str")}, cls=tcls[ctx.case[:-5]])
        else:
            e = entity(ctx, ctx.case)
        # no assumption on the name: an entity or a type may be called like the project group
        ctx.env.update(f=f, e=e)
        return [H5Writer, f.file, e], {}

    def post(self, ctx, result):
        f, e = ctx.env["f"], ctx.env["e"]
        un = f.uname(ctx.I, e.attrs["uid"])
        node = f.pre.link(f.tcont[ctx.case[:-5]], un) if ctx.case.endswith("-type") else f.flat(f.pre, ctx.case, un)
        if result is None:
            ctx.oblige("none-only-when-the-entity-is-not-stored", node == 0)
        else:
            ctx.oblige("returns-exactly-the-entitys-node", z3.And(isinstance(result, H5Node), node != 0, result.node == node))
        ctx.oblige("looking-a-node-up-changes-nothing", z3.And(f.st.links == f.pre.links, f.st.attrs == f.pre.attrs, f.st.dset == f.pre.dset), kind="frame")


def _fetch_handle_apply(self, I, args, kwargs):
    """summary (proved above, under the skeleton precondition): the flat node of the entity or None"""
    from geoh5py.data import Data
    from geoh5py.groups import Group
    from geoh5py.objects import ObjectBase

    f = I.ctx.env["f"]
    ent = args[2]
    kind = "data" if issubclass(ent.cls, Data) else ("object" if issubclass(ent.cls, ObjectBase) else "group")
    un = f.uname(I, ent.attrs["uid"])
    node = f.flat(f.st, kind, un)
    I.ctx.env.setdefault("handles", {})[ent.tag] = (kind, un, node)
    return Maybe(node != 0, H5Node(f.st, z3.simplify(node))) if False else (H5Node(f.st, z3.simplify(node)) if I.path.branch(node != 0, f"entity-stored@{I.cur_line}") else None)


FetchHandle.apply = _fetch_handle_apply


class RemoveChild(Contract):
    target = "geoh5py/io/h5_writer.py::H5Writer.remove_child"
    props = ("C09", "C02", "C05")
    uses = (FetchHandle,)

    def cases(self):
        return [(p, c) for p in ("group", "object") for c in ("data", "object", "group")]

    def setup(self, ctx):
        f = F(ctx)
        pkind, ckind = ctx.case
        parent = entity(ctx, pkind, "parent")
        parent.attrs["workspace"] = AbsObj("workspace", {"repack": False})
        uid = sym("child_uid", "uid")
        ctx.env.update(f=f, parent=parent, uid=uid)
        return [f.file, uid, KINDS[ckind], parent], {}

    def post(self, ctx, result):
        f, e = ctx.env["f"], ctx.env
        pkind, ckind = ctx.case
        I = ctx.I
        pn = f.flat(f.pre, pkind, f.uname(I, e["parent"].attrs["uid"]))
        cont = f.pre.link(pn, A(KINDS[ckind]))
        un = f.uname(I, e["uid"])
        active = z3.And(pn != 0, cont != 0)
        ctx.oblige("the-childs-entry-under-the-parent-is-gone", z3.Implies(active, f.st.link(cont, un) == 0))
        nm = z3.Int(fresh_name("nm"))
        ctx.oblige("the-parents-other-entries-are-kept", z3.Implies(active, z3.ForAll([nm], z3.Implies(nm != un, f.st.link(cont, nm) == f.pre.link(cont, nm)))), kind="frame")
        ctx.oblige("nothing-else-in-the-file-changes", z3.And(f.unchanged_except([cont], ("links",)), f.st.attrs == f.pre.attrs, f.st.dset == f.pre.dset), kind="frame")
        ctx.oblige("no-node-is-created", f.st.next == f.pre.next, kind="frame")


class RemoveEntityW(Contract):
    target = "geoh5py/io/h5_writer.py::H5Writer.remove_entity"
    props = ("C09", "C02", "C05")
    uses = (FetchHandle,)

    def cases(self):
        return [(k, p) for k in ("data", "object", "group") for p in ("no-parent", "group")] + [("types", "no-parent")]

    def setup(self, ctx):
        f = F(ctx)
        kind, pk = ctx.case
        uid = sym("uid", "uid")
        parent = None
        if pk != "no-parent":
            parent = entity(ctx, pk, "parent")
            parent.attrs["workspace"] = AbsObj("workspace", {"repack": False})
        if parent is not None:
            ctx.assume(uid.e != parent.attrs["uid"].e)  # an entity is not its own parent
            from pyvc.models_py import _str_of_uid
            ctx.assume(_str_of_uid()(uid.e) != _str_of_uid()(parent.attrs["uid"].e))  # str(uuid) is injective (T-py)
            pn = f.flat(f.pre, pk, f.uname(ctx.I, parent.attrs["uid"]))
            ctx.assume(z3.Implies(pn != 0, f.owned_container(pn, KINDS[kind])))
        ctx.env.update(f=f, uid=uid, parent=parent)
        ref = "Types" if kind == "types" else KINDS[kind]
        return [f.file, uid, ref], ({"parent": parent} if parent is not None else {})

    def post(self, ctx, result):
        f, e = ctx.env["f"], ctx.env
        kind, pk = ctx.case
        I = ctx.I
        un = f.uname(I, e["uid"])
        if kind == "types":
            for k, c in f.tcont.items():
                ctx.oblige(f"type-entry-gone-from-{k}-types", f.st.link(c, un) == 0)
            ctx.oblige("nothing-else-in-the-file-changes", z3.And(f.unchanged_except(list(f.tcont.values()), ("links",)), f.st.attrs == f.pre.attrs, f.st.dset == f.pre.dset), kind="frame")
            return
        c = f.cont[kind]
        ctx.oblige("the-flat-entry-is-gone", f.st.link(c, un) == 0)
        foot = [c]
        if e["parent"] is not None:
            pn = f.flat(f.pre, pk, f.uname(I, e["parent"].attrs["uid"]))
            pc = f.pre.link(pn, A(KINDS[kind]))
            # the parent's container is a node of its own (ownership), not the flat container
            ctx.oblige("the-parents-entry-is-gone-too", z3.Implies(z3.And(pn != 0, pc != 0), f.st.link(pc, un) == 0))
            foot.append(pc)
        nm = z3.Int(fresh_name("nm"))
        ctx.oblige("other-entities-keep-their-flat-entries", z3.ForAll([nm], z3.Implies(nm != un, f.st.link(c, nm) == f.pre.link(c, nm))), kind="frame")
        ctx.oblige("nothing-else-in-the-file-changes", z3.And(f.unchanged_except(foot, ("links",)), f.st.attrs == f.pre.attrs, f.st.dset == f.pre.dset), kind="frame")


class WriteArrayAttribute(Contract):
    """write_array_attribute(file, entity, attribute): afterwards the entity's node holds exactly one
    dataset for the attribute and it is the entity's *current public value* -- including a value the
    public getter only derives on demand (cells of a curve built from its vertices); without a value
    the node holds no such dataset.  Nothing else in the file changes."""
    target = "geoh5py/io/h5_writer.py::H5Writer.write_array_attribute"
    props = ("C03", "C08")
    uses = (FetchHandle,)

    def cases(self):
        return [(a, src) for a in ("cells", "trace", "surveys") for src in ("explicit", "stored", "derived-on-demand", "absent")]

    def setup(self, ctx):
        from pyvc.models_np import sym_arr

        f = F(ctx)
        attribute, src = ctx.case
        e = entity(ctx, "object")
        e.attrs["workspace"] = AbsObj("workspace", {"repack": False})
        value = sym_arr("value", (z3.Int(fresh_name("n")), 2), "int" if attribute == "cells" else "real")
        ctx.assume(value.shape[0] >= 0)
        priv = "_" + attribute
        e.attrs[priv] = value if src == "stored" else None
        e.getters = {}

        def public(I, _src=src):
            I.event("public-getter", attribute=attribute)
            if _src == "derived-on-demand":
                e.attrs[priv] = value  # the getter builds and caches the value
            return e.attrs[priv]

        e.getters[attribute] = public
        ctx.env.update(f=f, e=e, value=value)
        from geoh5py.io.h5_writer import H5Writer

        return [H5Writer, f.file, e, attribute], ({"values": value} if src == "explicit" else {})

    def post(self, ctx, result):
        from geoh5py.shared.utils import KEY_MAP
        from pyvc.models_h5 import val_of

        f, e = ctx.env["f"], ctx.env["e"]
        attribute, src = ctx.case
        I = ctx.I
        node = f.flat(f.pre, "object", f.uname(I, e.attrs["uid"]))
        key = A(KEY_MAP[attribute])
        d = f.st.link(node, key)
        if src == "absent":
            ctx.oblige("no-value-no-dataset", z3.Implies(node != 0, d == 0))
        else:
            ctx.oblige("the-dataset-is-a-new-node", z3.Implies(node != 0, z3.And(d >= f.pre.next, d < f.st.next)))
            ctx.oblige("the-dataset-holds-the-entitys-current-public-value", z3.Implies(node != 0, z3.Select(f.st.dset, d) == val_of(I, ctx.env["value"])),
                       note="the value the public getter reports (possibly derived on demand) is not what was written")
        nm = z3.Int(fresh_name("nm"))
        ctx.oblige("the-entitys-other-entries-are-kept", z3.ForAll([nm], z3.Implies(nm != key, f.st.link(node, nm) == f.pre.link(node, nm))), kind="frame")
        ctx.oblige("nothing-else-in-the-file-changes", z3.And(f.unchanged_except([node], ("links",)), f.unchanged_except([], ("attrs", "dset"))), kind="frame")
        ctx.oblige("an-entity-that-is-not-stored-is-not-written", z3.Implies(node == 0, z3.And(f.st.links == f.pre.links, f.st.next == f.pre.next)), kind="frame")


class WriteToParent(Contract):
    """write_to_parent links the child's own flat node (a hard link, never a copy) under the
    parent's container of the child's kind, and changes nothing else."""
    target = "geoh5py/io/h5_writer.py::H5Writer.write_to_parent"
    props = ("C02", "C09", "C01")

    def cases(self):
        return [(p, c) for p in ("group",) for c in ("data", "object", "group")] + [("object", "data"), ("root", "root")]

    def setup(self, ctx):
        from geoh5py.io.h5_writer import H5Writer

        f = F(ctx)
        pk, ck = ctx.case
        parent = entity(ctx, "group" if pk == "root" else pk, "parent")
        child = entity(ctx, ck, "child", parent=parent)
        ctx.assume(child.attrs["uid"].e != parent.attrs["uid"].e)
        en, pn = z3.Int(fresh_name("child_node")), z3.Int(fresh_name("parent_node"))
        ctx.assume(z3.And(en >= 1, en < f.st.next, pn >= 1, pn < f.st.next, en != pn))
        skeleton = [f.st.root, f.proj, f.types] + list(f.cont.values()) + list(f.tcont.values())
        ctx.assume(z3.And(*[z3.And(en != s, pn != s) for s in skeleton]))
        if ck != "root":
            cpre = f.pre.link(pn, A(KINDS[ck]))
            ctx.assume(z3.And(cpre != en, cpre != pn, *[cpre != s for s in skeleton]))

        def write_entity(I, a, kw):
            # summary of write_entity on stored entities: returns the entity's node, file unchanged
            ent = [x for x in a if isinstance(x, AbsObj)][0]
            I.event("write_entity", entity=ent)
            return H5Node(f.st, en if ent is child else pn)

        ctx.env.update(f=f, parent=parent, child=child, en=en, pn=pn)
        fake = AbsObj("H5Writer-cls", {}, {"write_entity": write_entity})
        ctx.env["H5W"] = H5Writer
        ctx.env["we"] = write_entity
        return [H5Writer, f.file, child, 5], {}

    attr_overrides = {}

    def post(self, ctx, result):
        f, e = ctx.env["f"], ctx.env
        pk, ck = ctx.case
        if ck == "root":
            ctx.oblige("the-root-has-no-parent-entry-to-write", z3.And(f.st.links == f.pre.links, f.st.attrs == f.pre.attrs), kind="frame")
            return
        I = ctx.I
        un = f.uname(I, e["child"].attrs["uid"])
        cont_pre = f.pre.link(e["pn"], A(KINDS[ck]))
        cont = f.st.link(e["pn"], A(KINDS[ck]))
        ctx.oblige("the-parent-has-a-container-for-this-kind", cont != 0)
        ctx.oblige("the-parents-entry-is-the-childs-own-node", z3.Implies(z3.Or(cont_pre == 0, f.pre.link(cont_pre, un) == 0), f.st.link(cont, un) == e["en"]))
        ctx.oblige("an-existing-entry-is-left-alone", z3.Implies(z3.And(cont_pre != 0, f.pre.link(cont_pre, un) != 0), f.st.link(cont, un) == f.pre.link(cont_pre, un)), kind="frame")
        ctx.oblige("nothing-else-in-the-file-changes", z3.And(f.unchanged_except([e["pn"], cont_pre], ("links",)), f.unchanged_except([], ("attrs", "dset"))), kind="frame")


class WriteEntityStub(Contract):
    """call summary of H5Writer.write_entity used by write_to_parent (its own contract is WriteEntity)"""
    target = "geoh5py/io/h5_writer.py::H5Writer.write_entity"
    symbolic = False
    props = ()

    def apply(self, I, args, kwargs):
        return I.ctx.env["we"](I, args, kwargs)


WriteToParent.uses = (WriteEntityStub,)


class WriteEntity(Contract):
    """write_entity on a stored entity is the identity; on a new one it creates exactly one node
    under the flat container of its kind, with its child containers, and a Type entry that is
    the shared type node itself."""
    target = "geoh5py/io/h5_writer.py::H5Writer.write_entity"
    props = ("C02", "C09", "C01")

    def cases(self):
        return ["data", "object", "group", "root"]

    def setup(self, ctx):
        from geoh5py.io.h5_writer import H5Writer

        f = F(ctx)
        e = entity(ctx, ctx.case)
        tn = z3.Int(fresh_name("type_node"))
        ctx.assume(z3.And(tn >= 1, tn < f.st.next))

        def write_entity_type(I, a, kw):
            I.event("write_entity_type", etype=[x for x in a if isinstance(x, AbsObj)][0])
            return H5Node(f.st, tn)

        def write_properties(I, a, kw):
            I.event("write_properties", entity=[x for x in a if isinstance(x, AbsObj)][0], links_at_call=f.st.links)
            return None

        ctx.env.update(f=f, e=e, tn=tn, wet=write_entity_type, wp=write_properties)
        return [H5Writer, f.file, e, 5], {}

    def post(self, ctx, result):
        f, env = ctx.env["f"], ctx.env
        e = env["e"]
        kind = "group" if ctx.case == "root" else ctx.case
        I = ctx.I
        un = f.uname(I, e.attrs["uid"])
        c = f.cont[kind]
        was = f.pre.link(c, un)
        ok = isinstance(result, H5Node)
        ctx.oblige("returns-a-handle", ok)
        if not ok:
            return
        ctx.oblige("the-entity-is-marked-stored", e.attrs.get("on_file") is True)
        ctx.oblige("returns-the-entitys-flat-node", z3.And(f.st.link(c, un) == result.node, result.node != 0))
        # stored already: identity
        ctx.oblige("writing-a-stored-entity-changes-nothing", z3.Implies(was != 0, z3.And(result.node == was, f.st.links == f.pre.links, f.st.attrs == f.pre.attrs, f.st.dset == f.pre.dset)), kind="frame")
        new = was == 0
        ctx.oblige("a-new-entity-gets-a-fresh-node", z3.Implies(new, z3.And(result.node >= f.pre.next, result.node < f.st.next)))
        ctx.oblige("its-Type-entry-is-the-shared-type-node-itself", z3.Implies(new, f.st.link(result.node, A("Type")) == env["tn"]))
        want = {"data": [], "object": ["Data"], "group": ["Data", "Groups", "Objects"]}[kind]
        for sub in want:
            ctx.oblige(f"a-new-{kind}-gets-its-own-empty-{sub}-container", z3.Implies(new, z3.And(f.st.link(result.node, A(sub)) >= f.pre.next, f.st.link(result.node, A(sub)) != result.node)))
        if ctx.case == "root":
            ctx.oblige("Root-points-to-the-root-groups-node", z3.Implies(new, f.st.link(f.proj, A("Root")) == result.node))
            foot = [c, f.proj]
        else:
            foot = [c]
        ctx.oblige("existing-nodes-other-than-the-flat-container-are-untouched", z3.Implies(new, z3.And(f.unchanged_except(foot, ("links", "attrs", "dset")))), kind="frame")
        nm = z3.Int(fresh_name("nm"))
        ctx.oblige("other-entities-keep-their-flat-entries", z3.ForAll([nm], z3.Implies(nm != un, f.st.link(c, nm) == f.pre.link(c, nm))), kind="frame")


class WriteEntityTypeStub(Contract):
    target = "geoh5py/io/h5_writer.py::H5Writer.write_entity_type"
    symbolic = False
    props = ()

    def apply(self, I, args, kwargs):
        return I.ctx.env["wet"](I, args, kwargs)


class WritePropertiesStub(Contract):
    target = "geoh5py/io/h5_writer.py::H5Writer.write_properties"
    symbolic = False
    props = ()

    def apply(self, I, args, kwargs):
        return I.ctx.env["wp"](I, args, kwargs)


WriteEntity.uses = (WriteEntityTypeStub, WritePropertiesStub)
WriteEntity.trusted = ("write_entity_type returns the shared type node (one node per type uid; its own contract is not yet written); write_properties writes attributes/datasets of the new node only (C03/C08)",)

CONTRACTS = [WriteArrayAttribute, FetchHandle, RemoveChild, RemoveEntityW, WriteEntityStub, WriteToParent, WriteEntityTypeStub, WritePropertiesStub, WriteEntity]


class InitGeoh5(Contract):
    """init_geoh5 creates the skeleton of WF(a) on an empty file."""
    target = "geoh5py/io/h5_writer.py::H5Writer.init_geoh5"
    props = ("C02",)

    def setup(self, ctx):
        from geoh5py.io.h5_writer import H5Writer

        st = H5State()
        ctx.assume(z3.And(st.root >= 1, st.root < st.next))
        nm = z3.Int(fresh_name("nm"))
        ctx.assume(z3.ForAll([nm], st.link(st.root, nm) == 0))  # empty file
        name = sym("workspace_name", "str")
        ws = AbsObj("workspace", {"name": name})
        ctx.env.update(st=st, pre=st.snapshot(), name=name, wa=lambda I, a, kw: I.event("write_attributes", entity=[x for x in a if isinstance(x, AbsObj)][0]))
        return [H5Writer, H5Node(st, st.root, is_file=True), ws], {}

    def post(self, ctx, result):
        e = ctx.env
        st = e["st"]
        proj = st.link(st.root, e["name"].e)
        ctx.oblige("one-project-group-under-the-workspace-name", proj != 0)
        subs = {k: st.link(proj, A(k)) for k in ("Data", "Groups", "Objects", "Types")}
        for k, n in subs.items():
            ctx.oblige(f"project-has-{k}", n != 0)
        for k in ("Data types", "Group types", "Object types"):
            ctx.oblige(f"Types-has-{k.replace(' ', '-')}", st.link(subs["Types"], A(k)) != 0)
        nodes = [proj] + list(subs.values()) + [st.link(subs["Types"], A(k)) for k in ("Data types", "Group types", "Object types")]
        ctx.oblige("every-container-is-a-node-of-its-own", z3.Distinct(*([st.root] + nodes)))
        wa = [p for k, p in ctx.path.events if k == "write_attributes"]
        ctx.oblige("project-attributes-are-written", len(wa) == 1)


class WriteAttributesStub2(Contract):
    target = "geoh5py/io/h5_writer.py::H5Writer.write_attributes"
    symbolic = False
    props = ()

    def apply(self, I, args, kwargs):
        return I.ctx.env["wa"](I, args, kwargs)


InitGeoh5.uses = (WriteAttributesStub2,)
CONTRACTS = CONTRACTS + [WriteAttributesStub2, InitGeoh5]


class SaveChildStub(Contract):
    """call summary of the recursive H5Writer.save_entity(child) inside save_entity"""
    target = "geoh5py/io/h5_writer.py::H5Writer.save_entity"
    variant = "recursive-call-summary"
    symbolic = False
    props = ()

    def apply(self, I, args, kwargs):
        ents = [x for x in list(args) + list(kwargs.values()) if isinstance(x, AbsObj)]
        I.event("save_child", entity=ents[0] if ents else None, add_children=kwargs.get("add_children", args[4] if len(args) > 4 else True))
        return I.ctx.env["we"](I, args, kwargs)


class WriteToParentStub(Contract):
    target = "geoh5py/io/h5_writer.py::H5Writer.write_to_parent"
    symbolic = False
    props = ()

    def apply(self, I, args, kwargs):
        ents = [x for x in list(args) + list(kwargs.values()) if isinstance(x, AbsObj)]
        I.event("write_to_parent", entity=ents[0] if ents else None, recursively=kwargs.get("recursively", args[4] if len(args) > 4 else False))
        return None


class SaveEntity(Contract):
    """save_entity writes the entity, then -- whether or not the entity itself was already stored --
    saves every child that is not a property group (recursively, children included), and links the
    entity under its parent.  This is what lets the final save of the tree on close() reach
    entities created without write-through under parents that are on file."""
    target = "geoh5py/io/h5_writer.py::H5Writer.save_entity"
    props = ("C01", "C09")

    def cases(self):
        return [(pk, add) for pk in ("group", "object", "root") for add in (True, False, "default")]

    def setup(self, ctx):
        from geoh5py.groups import PropertyGroup
        from geoh5py.io.h5_writer import H5Writer
        from pyvc.values import PList

        f = F(ctx)
        pk, add = ctx.case
        me = entity(ctx, pk, "entity")
        me.attrs["on_file"] = sym("entity_on_file", "bool")
        kids = [entity(ctx, "data", "data-child", parent=me)]
        kids.append(AbsObj("property-group", {"uid": sym("pg_uid", "uid"), "name": sym("pg_name", "str"), "parent": me, "on_file": sym("pg_on_file", "bool")}, cls=PropertyGroup))
        if pk != "object":
            kids.append(entity(ctx, "object", "object-child", parent=me))
            kids.append(entity(ctx, "group", "group-child", parent=me))
        for i, k in enumerate(kids):
            if k.cls is not PropertyGroup:
                k.attrs["on_file"] = sym(f"child{i}_on_file", "bool")
        me.attrs["children"] = PList(kids)
        en = z3.Int(fresh_name("entity_node"))
        ctx.assume(z3.And(en >= 1, en < f.st.next))

        def write_entity(I, a, kw):
            ents = [x for x in list(a) + list(kw.values()) if isinstance(x, AbsObj)]
            I.event("write_entity", entity=ents[0] if ents else None)
            return H5Node(f.st, en)

        ctx.env.update(f=f, me=me, kids=kids, we=write_entity, en=en)
        args = [H5Writer, f.file, me]
        kw = {} if add == "default" else {"add_children": add}
        return args, kw

    def post(self, ctx, result):
        from geoh5py.groups import PropertyGroup

        e = ctx.env
        pk, add = ctx.case
        ev = ctx.path.events
        writes = [i for i, (k, p) in enumerate(ev) if k == "write_entity" and p["entity"] is e["me"]]
        saved = [(i, p) for i, (k, p) in enumerate(ev) if k == "save_child"]
        links = [(i, p) for i, (k, p) in enumerate(ev) if k == "write_to_parent" and p["entity"] is e["me"]]
        ctx.oblige("the-entity-itself-is-written-once", len(writes) == 1)
        ctx.oblige("returns-the-entitys-node", isinstance(result, H5Node) and result.node is e["en"])
        ctx.oblige("the-entity-is-linked-under-its-parent", len(links) == 1 and links[0][1]["recursively"] is False)
        want = [k for k in e["kids"] if k.cls is not PropertyGroup] if add in (True, "default") else []
        for k in want:
            n = [i for i, p in saved if p["entity"] is k]
            ctx.oblige(f"child-saved-whatever-is-already-stored[{k.tag}]", len(n) == 1 and bool(writes) and writes[0] < n[0] and all(p["add_children"] is True for i, p in saved if p["entity"] is k),
                       note=f"save_entity(add_children={add}) on a {pk} did not pass its child {k.tag} to save_entity (entity.on_file and child.on_file are unconstrained booleans)")
        ctx.oblige("nothing-but-the-wanted-children-is-saved", all(any(p["entity"] is k for k in want) for i, p in saved))


SaveEntity.uses = (WriteEntityStub, SaveChildStub, WriteToParentStub)
SaveEntity.trusted = ("write_entity / write_to_parent / the recursive save_entity are call summaries here (their own contracts: WriteEntity, WriteToParent, this contract)",)
CONTRACTS = CONTRACTS + [SaveChildStub, WriteToParentStub, SaveEntity]


class WriteEntityMarksType(WriteEntity):
    """After write_entity the entity's *type* is flagged as stored as well -- whether the type's node
    was created by this call or was in the file already (another entity of the class wrote it, or an
    earlier instance of the type that has since been garbage-collected).  Later edits of the type
    (name, description, maps) are written through only for types flagged as stored.  write_entity_type
    is executed here, not summarised: which of the two functions sets the flag is their business."""
    variant = "type-marked-stored"
    props = ("C03", "C01")
    uses = (WritePropertiesStub, WriteAttributesStub2)

    def cases(self):
        return [(k, t) for k in ("data", "object", "group") for t in ("type-node-in-the-file", "type-node-missing", "either")]

    def setup(self, ctx):
        kind, tstate = ctx.case
        case, ctx.case = ctx.case, kind
        try:
            out = super().setup(ctx)
        finally:
            ctx.case = case
        f, e = ctx.env["f"], ctx.env["e"]
        ctx.env["wa"] = lambda I, a, kw: I.event("write_attributes", entity=[x for x in a if isinstance(x, AbsObj)][0])
        tun = f.uname(ctx.I, e.attrs["entity_type"].attrs["uid"]) if hasattr(ctx, "I") and ctx.I is not None else None
        ctx.env["tstate"] = tstate
        return out

    def post(self, ctx, result):
        f, e = ctx.env["f"], ctx.env["e"]
        kind = ctx.case[0]
        un = f.uname(ctx.I, e.attrs["uid"])
        was = f.pre.link(f.cont[kind], un)  # the entity's flat node before the call (0: a new entity)
        flagged = z3.BoolVal(e.attrs["entity_type"].attrs.get("on_file") is True)
        ctx.oblige("the-type-of-a-newly-written-entity-is-marked-stored", z3.Implies(was == 0, flagged),
                   note="the type of a freshly written entity is left unflagged: later assignments on the type are silently not written")
        ctx.oblige("the-entity-is-marked-stored", e.attrs.get("on_file") is True)


CONTRACTS = CONTRACTS + [WriteEntityMarksType]
