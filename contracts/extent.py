"""C13: spatial selection is exact (closed box, per common axis)."""
from __future__ import annotations

import itertools

import numpy as np
import z3

from pyvc.contracts import Contract
from pyvc.core import fresh_name
from pyvc.models_np import Z, sym_arr
from pyvc.values import AbsObj, SV, Arr, Obj, Opaque, PList, mk, sym, to_z3, zbool


def in_box(L, E, p, axes):
    """Closed-box test of row p of L against extent E on the first `axes` axes."""
    return z3.And(*[z3.And(E.elem(0, a) <= L.elem(p, a), L.elem(p, a) <= E.elem(1, a)) for a in range(axes)])


def np_in_box(L, E, inverse=False):
    axes = min(L.shape[1], E.shape[1])
    m = np.ones(L.shape[0], dtype=bool)
    for a in range(axes):
        m &= (E[0, a] <= L[:, a]) & (L[:, a] <= E[1, a])
    return ~m if inverse else m


def _grid_points(vals, w):
    return [np.array(c, dtype=float).reshape(-1, w) for k in (0, 1, 2) for c in itertools.product(itertools.product(vals, repeat=w), repeat=k)]


class MaskByExtent(Contract):
    target = "geoh5py/shared/utils.py::mask_by_extent"
    props = ("C13",)
    has_native = True
    bounded_scope = "<= 2 points on the lattice {0,1,2}^d, boxes with corners on {0,1,2} incl. degenerate/touching/disjoint, d,e in {2,3}, both inverse values (exhaustive)"
    assumptions = ("coordinates and extents are finite reals (no NaN/inf); float comparisons are exact",)

    def cases(self):
        return [(d, e) for d in (2, 3) for e in (2, 3)]

    def setup(self, ctx):
        d, e = ctx.case
        n = ctx.int("n", 0)
        L = sym_arr("loc", (n.e, d), "real")
        E = sym_arr("ext", (2, e), "real")
        inv = sym("inverse", "bool")
        ctx.env.update(L=L, E=E, inv=inv, n=n, axes=min(d, e))
        return [L, E], {"inverse": inv}

    def post(self, ctx, result):
        e = ctx.env
        p = z3.Int(fresh_name("p"))
        ok = isinstance(result, Arr) and result.ndim == 1 and result.dtype == "bool"
        ctx.oblige("returns-boolean-mask", ok)
        if not ok:
            return
        ctx.oblige("one-entry-per-location", Z(result.shape[0]) == e["n"].e)
        inside = in_box(e["L"], e["E"], p, e["axes"])
        ctx.oblige("selected-iff-inside-closed-box-xor-inverse", z3.Implies(z3.And(p >= 0, p < e["n"].e), result.elem(p) == z3.Xor(e["inv"].e, inside)))

    def size_terms(self, env):
        return [env["n"].e]

    def witness(self, model, env, case):
        d, e = case
        n = model.eval(env["n"].e, model_completion=True).as_long()
        if n > 6:
            return None
        val = lambda t: float(model.eval(t, model_completion=True).as_fraction()) if hasattr(model.eval(t, model_completion=True), "as_fraction") else float(model.eval(t, model_completion=True).approx(20).as_fraction())
        L = [[val(env["L"].elem(p, a)) for a in range(d)] for p in range(n)]
        E = [[val(env["E"].elem(r, a)) for a in range(e)] for r in range(2)]
        inv = z3.is_true(model.eval(env["inv"].e, model_completion=True))
        return {"L": L, "E": E, "inverse": inv, "d": d}

    def native_cases(self, tier, rng):
        vals = (0.0, 1.0, 2.0)
        for d, e in self.cases():
            pts = [[], [[1.0] * d], [[0.0] * d, [2.0] * d], [[1.0] + [0.0] * (d - 1), [2.0, 1.0] + [2.0] * (d - 2)]]
            for lo in itertools.product((0.0, 1.0), repeat=e):
                for hi in itertools.product((1.0, 2.0), repeat=e):
                    if any(l > h for l, h in zip(lo, hi)):
                        continue
                    for P in pts:
                        for inv in (False, True):
                            yield {"L": P, "E": [list(lo), list(hi)], "inverse": inv, "d": d}
        for _ in range(200 if tier == "quick" else 3000):
            d, e = rng.choice(self.cases())
            n = rng.randint(0, 5)
            yield {"L": [[rng.choice([-1.0, 0.0, 0.5, 1.0, 2.0]) for _ in range(d)] for _ in range(n)],
                   "E": [sorted([rng.choice([-1.0, 0.0, 1.0]) for _ in range(e)]), [rng.choice([1.0, 2.0]) for _ in range(e)]], "inverse": rng.random() < 0.5, "d": d}

    def native_check(self, case):
        from geoh5py.shared.utils import mask_by_extent

        L = np.array(case["L"], dtype=float).reshape(-1, case["d"])
        E = np.array(case["E"], dtype=float)
        got = mask_by_extent(L, E, inverse=case["inverse"])
        exp = np_in_box(L, E, case["inverse"])
        if got.dtype != bool or got.shape != exp.shape or not np.array_equal(got, exp):
            return f"mask {got.tolist()} expected {exp.tolist()} for L={L.tolist()} E={E.tolist()} inverse={case['inverse']}"
        return None


class BoxIntersect(Contract):
    target = "geoh5py/shared/utils.py::box_intersect"
    props = ("C13",)
    has_native = True
    bounded_scope = "pairs of boxes with corners on {0,1,2,3}, dims in {2,3}x{2,3}, including malformed (min>max) extents (exhaustive in 1-2 axes, sampled in 3)"

    def cases(self):
        return [(a, b) for a in (2, 3) for b in (2, 3)]

    def setup(self, ctx):
        da, db = ctx.case
        A = sym_arr("box_a", (2, da), "real")
        B = sym_arr("box_b", (2, db), "real")
        ctx.env.update(A=A, B=B, axes=min(da, db), da=da, db=db)
        return [A, B], {}

    def _wf(self, X, d):
        return z3.And(*[X.elem(0, a) <= X.elem(1, a) for a in range(d)])

    def post(self, ctx, result):
        e = ctx.env
        A, B = e["A"], e["B"]
        meet = z3.And(*[z3.And(A.elem(0, a) <= B.elem(1, a), B.elem(0, a) <= A.elem(1, a)) for a in range(e["axes"])])
        ctx.oblige("well-formed-extents-accepted-only", z3.And(self._wf(A, e["da"]), self._wf(B, e["db"])))
        ctx.oblige("true-iff-closed-boxes-meet-on-every-common-axis", zbool(ctx.I.truth(result)) == meet)

    def post_raises(self, ctx, sig):
        e = ctx.env
        ctx.oblige("raises-ValueError-only", sig.exc_class is ValueError, kind="post-exc")
        ctx.oblige("raises-only-on-malformed-extent", z3.Not(z3.And(self._wf(e["A"], e["da"]), self._wf(e["B"], e["db"]))), kind="post-exc")

    def native_cases(self, tier, rng):
        vals = (0.0, 1.0, 2.0, 3.0)
        for da, db in self.cases():
            for _ in range(150 if tier == "quick" else 2000):
                A = [[rng.choice(vals) for _ in range(da)] for _ in range(2)]
                B = [[rng.choice(vals) for _ in range(db)] for _ in range(2)]
                yield {"A": A, "B": B}

    def native_check(self, case):
        from geoh5py.shared.utils import box_intersect

        A, B = np.array(case["A"], dtype=float), np.array(case["B"], dtype=float)
        wf = bool(np.all(A[0] <= A[1]) and np.all(B[0] <= B[1]))
        try:
            got = box_intersect(A, B)
        except ValueError:
            return None if not wf else f"raised on well-formed extents {case}"
        if not wf:
            return f"accepted malformed extents {case}"
        k = min(A.shape[1], B.shape[1])
        exp = all(A[0, a] <= B[1, a] and B[0, a] <= A[1, a] for a in range(k))
        return None if bool(got) == exp else f"got {got} expected {exp} for {case}"


def _points_obj(ctx, cls, n, with_cells=None):
    V = sym_arr("vertices", (n.e, 3), "real")
    fields = {"_vertices": V}
    return Obj(cls, fields), V


class PointsMaskByExtent(Contract):
    target = "geoh5py/objects/points.py::Points.mask_by_extent"
    props = ("C13",)
    uses = (MaskByExtent, BoxIntersect)
    attr_overrides = {"vertices": lambda I, obj: obj.fields["_vertices"]}
    trusted = ("Points.vertices getter returns the (n,3) view of the stored vertices (C03/C07 sweep)",)

    def cases(self):
        return [2, 3]

    def setup(self, ctx):
        from geoh5py.objects import Points

        n = ctx.int("n", 1)
        obj, V = _points_obj(ctx, Points, n)
        E = sym_arr("ext", (2, ctx.case), "real")
        ctx.assume(z3.And(*[E.elem(0, a) <= E.elem(1, a) for a in range(ctx.case)]))
        inv = sym("inverse", "bool")
        ctx.env.update(V=V, E=E, inv=inv, n=n, axes=ctx.case)
        return [obj, E], {"inverse": inv}

    def post(self, ctx, result):
        e = ctx.env
        p = z3.Int(fresh_name("p"))
        q = z3.Int(fresh_name("q"))
        rng = lambda x: z3.And(x >= 0, x < e["n"].e)
        # bounding box of the object misses the box <=> on some axis every vertex is beyond the box
        axes = e["axes"]
        miss = z3.Or(*[z3.Or(z3.ForAll([q], z3.Implies(rng(q), e["V"].elem(q, a) > e["E"].elem(1, a))), z3.ForAll([q], z3.Implies(rng(q), e["V"].elem(q, a) < e["E"].elem(0, a)))) for a in range(axes)])
        if result is None:
            ctx.oblige("nothing-returned-only-when-bounding-box-is-missed", miss)
            return
        ctx.oblige("mask-returned-only-when-bounding-box-is-met", z3.Not(miss))
        ok = isinstance(result, Arr) and result.ndim == 1
        ctx.oblige("returns-boolean-mask", ok)
        if ok:
            ctx.oblige("one-entry-per-vertex", Z(result.shape[0]) == e["n"].e)
            ctx.oblige("vertex-selected-iff-inside-xor-inverse", z3.Implies(rng(p), result.elem(p) == z3.Xor(e["inv"].e, in_box(e["V"], e["E"], p, axes))))


def _apply_mask_by_extent(self, I, args, kwargs):
    """call summary of utils.mask_by_extent (its own contract is proved above)."""
    L, E = args[0], args[1]
    inv = kwargs.get("inverse", args[2] if len(args) > 2 else False)
    axes = min(L.shape[1], E.shape[1])
    iz = to_z3(inv)
    return Arr((L.shape[0],), lambda p, _L=L, _E=E: z3.Xor(iz, in_box(_L, _E, p, axes)), "bool", "mask_by_extent")


def _apply_box_intersect(self, I, args, kwargs):
    A, B = args
    da, db = A.shape[1], B.shape[1]
    wf = z3.And(*[A.elem(0, a) <= A.elem(1, a) for a in range(da)], *[B.elem(0, a) <= B.elem(1, a) for a in range(db)])
    if not I.path.branch(wf, f"box_intersect-wellformed@{I.cur_line}"):
        I.raise_(ValueError)
    k = min(da, db)
    return mk(z3.And(*[z3.And(A.elem(0, a) <= B.elem(1, a), B.elem(0, a) <= A.elem(1, a)) for a in range(k)]), "bool")


MaskByExtent.apply = _apply_mask_by_extent
BoxIntersect.apply = _apply_box_intersect


class CellMaskByExtent(Contract):
    target = "geoh5py/objects/cell_object.py::CellObject.mask_by_extent"
    props = ("C13",)
    uses = (MaskByExtent, BoxIntersect)
    has_native = True
    attr_overrides = {"vertices": lambda I, obj: obj.fields["_vertices"], "cells": lambda I, obj: obj.fields["_cells"]}
    trusted = ("vertices/cells getters return the stored arrays (C03/C07 sweep)",)
    bounded_scope = "curves with <= 5 vertices on a line and every subset of <= 3 segments (incl. unused vertices), boxes over the lattice, both inverse values (exhaustive)"

    def cases(self):
        return [(w, e) for w in (2, 3) for e in (2, 3)]

    def setup(self, ctx):
        from geoh5py.objects import Curve, Surface

        w, ext_dim = ctx.case
        n = ctx.int("n", 1)
        nc = ctx.int("nc", 0)
        V = sym_arr("vertices", (n.e, 3), "real")
        C = sym_arr("cells", (nc.e, w), "int")
        c, j = z3.Ints(f"{fresh_name('c')} {fresh_name('j')}")
        ctx.assume(z3.ForAll([c, j], z3.Implies(z3.And(c >= 0, c < nc.e, j >= 0, j < w), z3.And(C.elem(c, j) >= 0, C.elem(c, j) < n.e))))
        obj = Obj(Curve if w == 2 else Surface, {"_vertices": V, "_cells": C})
        E = sym_arr("ext", (2, ext_dim), "real")
        ctx.assume(z3.And(*[E.elem(0, a) <= E.elem(1, a) for a in range(ext_dim)]))
        inv = sym("inverse", "bool")
        ctx.env.update(V=V, C=C, E=E, inv=inv, n=n, nc=nc, w=w, axes=ext_dim)
        return [obj, E], {"inverse": inv}

    def _sel(self, e, v):
        return z3.Xor(e["inv"].e, in_box(e["V"], e["E"], v, e["axes"]))

    def _spec(self, e, v):
        c = z3.Int(fresh_name("c"))
        w = e["w"]
        uses = z3.Or(*[e["C"].elem(c, j) == v for j in range(w)])
        allin = z3.And(*[self._sel(e, e["C"].elem(c, j)) for j in range(w)])
        return z3.Exists([c], z3.And(c >= 0, c < e["nc"].e, uses, allin))

    def post(self, ctx, result):
        e = ctx.env
        v = z3.Int(fresh_name("v"))
        rng = z3.And(v >= 0, v < e["n"].e)
        if result is None:
            # nothing returned only if the bounding box is missed or no vertex qualifies
            q = z3.Int(fresh_name("q"))
            r = lambda x: z3.And(x >= 0, x < e["n"].e)
            miss = z3.Or(*[z3.Or(z3.ForAll([q], z3.Implies(r(q), e["V"].elem(q, a) > e["E"].elem(1, a))), z3.ForAll([q], z3.Implies(r(q), e["V"].elem(q, a) < e["E"].elem(0, a)))) for a in range(e["axes"])])
            ctx.oblige("nothing-returned-only-when-box-missed-or-no-element-qualifies", z3.Or(miss, z3.Not(z3.Exists([v], z3.And(rng, self._spec(e, v))))))
            return
        ok = isinstance(result, Arr) and result.ndim == 1
        ctx.oblige("returns-boolean-mask", ok)
        if ok:
            ctx.oblige("one-entry-per-vertex", Z(result.shape[0]) == e["n"].e)
            ctx.oblige("kept-vertex-is-used-by-a-cell-whose-vertices-all-qualify", z3.Implies(z3.And(rng, result.elem(v)), self._spec(e, v)))
            c0 = z3.Int(fresh_name("c0"))
            w = e["w"]
            hyp = z3.And(c0 >= 0, c0 < e["nc"].e, z3.Or(*[e["C"].elem(c0, j) == v for j in range(w)]), *[self._sel(e, e["C"].elem(c0, j)) for j in range(w)])
            ctx.oblige("vertex-of-a-fully-qualifying-cell-is-kept", z3.Implies(z3.And(rng, hyp), result.elem(v)))
            ctx.oblige("mask-returned-only-when-some-element-qualifies", z3.Exists([v], z3.And(rng, result.elem(v))))

    def native_cases(self, tier, rng):
        n = 5
        segs = [(i, j) for i in range(n) for j in range(n) if i != j]
        chosen = [[], [(0, 1)], [(0, 1), (1, 2)], [(1, 2), (3, 4)], [(0, 1), (1, 2), (2, 3), (3, 4)], [(4, 3), (1, 0)], [(0, 2), (2, 4)]]
        boxes = [[[lo, -1.0], [hi, 1.0]] for lo in (-1.0, 0.0, 1.0, 2.5) for hi in (0.0, 1.0, 3.0, 4.0, 5.0) if lo <= hi]
        for cells in chosen:
            if not cells:
                continue
            for box in boxes:
                for inv in (False, True):
                    yield {"n": n, "cells": [list(c) for c in cells], "box": box, "inverse": inv}

    def native_check(self, case):
        from geoh5py.objects import Curve
        from geoh5py.workspace import Workspace

        n = case["n"]
        verts = np.c_[np.arange(n, dtype=float), np.zeros(n), np.zeros(n)]
        cells = np.array(case["cells"], dtype="uint32")
        with Workspace() as ws:
            curve = Curve.create(ws, vertices=verts, cells=cells)
            box = np.array(case["box"], dtype=float)
            got = curve.mask_by_extent(box, inverse=case["inverse"])
        sel = np_in_box(verts, box, case["inverse"])
        exp = np.zeros(n, dtype=bool)
        for c in cells:
            if all(sel[i] for i in c):
                exp[list(c)] = True
        bbox_hit = all(verts[:, a].min() <= box[1, a] and box[0, a] <= verts[:, a].max() for a in range(2))
        if got is None:
            return None if (not bbox_hit or not exp.any()) else f"returned nothing but {exp.tolist()} qualifies ({case})"
        if not np.array_equal(got, exp):
            return f"mask {got.tolist()} expected {exp.tolist()} ({case})"
        return None


class _ForwardsExtent(Contract):
    """Abstract execution: the selection request is forwarded unchanged to the callees."""
    lenient = True
    props = ("C13",)

    def events_of(self, ctx, kind):
        return [p for k, p in ctx.path.events if k == kind]


class ContainerCopyFromExtent(_ForwardsExtent):
    target = "geoh5py/shared/entity_container.py::EntityContainer.copy_from_extent"

    def setup(self, ctx):
        from geoh5py.shared.entity_container import EntityContainer

        me = Opaque("self", cls=EntityContainer)
        extent, inverse = Opaque("extent"), Opaque("inverse")
        mask = Opaque("mask")

        def mask_by_extent(I, a, kw):
            I.event("mask_by_extent", extent=a[0] if a else kw.get("extent"), inverse=kw.get("inverse", a[1] if len(a) > 1 else False))
            return mask

        def copy(I, a, kw):
            I.event("copy", mask=kw.get("mask"), parent=kw.get("parent"))
            return Opaque("copied")

        me.attrs["mask_by_extent"] = Opaque("self.mask_by_extent")
        me.attrs["mask_by_extent"].maybe_method = mask_by_extent
        me.attrs["copy"] = Opaque("self.copy")
        me.attrs["copy"].maybe_method = copy
        ctx.env.update(extent=extent, inverse=inverse, mask=mask, parent=Opaque("parent"))
        return [me, extent], {"parent": ctx.env["parent"], "inverse": inverse}

    def post(self, ctx, result):
        e = ctx.env
        m = self.events_of(ctx, "mask_by_extent")
        ctx.oblige("selection-uses-the-requested-extent-and-inverse-flag", len(m) == 1 and m[0]["extent"] is e["extent"] and m[0]["inverse"] is e["inverse"])
        c = self.events_of(ctx, "copy")
        if result is None:
            ctx.oblige("nothing-copied-only-when-nothing-selected", len(c) == 0 and z3.And(e["mask"].none_var()))
        else:
            ctx.oblige("copy-is-exactly-the-selection", len(c) == 1 and c[0]["mask"] is e["mask"] and c[0]["parent"] is e["parent"])


class GroupCopyFromExtent(_ForwardsExtent):
    target = "geoh5py/groups/base.py::Group.copy_from_extent"
    has_native = True
    bounded_scope = "groups {a 5-point cloud + a nested group with a 4-vertex curve; the same with the curve 100 units away; only nested groups (two levels) around the curve}; 6 boxes x both inverse values"

    def native_cases(self, tier, rng):
        for layout in ("objects-and-nested", "nested-only", "nested-far-away"):
            for box in ([[0.5, -1], [2.5, 1]], [[-1, -1], [0.5, 1]], [[1.5, -1], [9, 1]], [[-5, -5], [9, 9]], [[100.5, -1], [102.5, 1]], [[99, -1], [200, 1]]):
                for inv in (False, True):
                    yield {"box": box, "inverse": inv, "layout": layout}

    def native_check(self, case):
        from geoh5py.groups import ContainerGroup
        from geoh5py.objects import Curve, Points
        from geoh5py.workspace import Workspace

        box = np.array(case["box"], dtype=float)
        pts = np.c_[np.arange(5.0), np.zeros(5), np.zeros(5)]
        layout = case.get("layout", "objects-and-nested")
        cv = np.c_[np.arange(4.0) + (100.0 if layout == "nested-far-away" else 0.0), np.zeros(4), np.zeros(4)]
        with Workspace() as ws:
            top = ContainerGroup.create(ws, name="top")
            if layout != "nested-only":
                Points.create(ws, name="pts", vertices=pts, parent=top)
            else:
                pts = np.zeros((0, 3))
            sub = ContainerGroup.create(ws, name="sub", parent=top)
            if layout == "nested-only":
                sub = ContainerGroup.create(ws, name="subsub", parent=sub)
            Curve.create(ws, name="cv", vertices=cv, parent=sub)
            out = top.copy_from_extent(box, inverse=case["inverse"])
            exp_pts = pts[np_in_box(pts, box, case["inverse"])] if len(pts) else pts
            sel = np_in_box(cv, box, case["inverse"])
            keep = np.zeros(4, dtype=bool)
            for a in range(3):
                if sel[a] and sel[a + 1]:
                    keep[[a, a + 1]] = True
            exp_cv = cv[keep]
            found = {"pts": np.zeros((0, 3)), "cv": np.zeros((0, 3))}

            def walk(g):
                for ch in g.children:
                    if hasattr(ch, "vertices") and ch.vertices is not None:
                        found[ch.name] = np.asarray(ch.vertices)
                    elif hasattr(ch, "children") and not hasattr(ch, "vertices"):
                        walk(ch)

            if out is not None:
                walk(out)
            def misses(v):  # the box misses the object's bounding box: "nothing is returned" is then allowed, inverse or not
                return len(v) > 0 and bool(np.any((v[:, :2].max(axis=0) < box[0, :2]) | (v[:, :2].min(axis=0) > box[1, :2])))

            for name, exp in (("pts", exp_pts), ("cv", exp_cv)):
                if len(found[name]) == 0 and misses({"pts": pts, "cv": cv}[name]):
                    continue
                if found[name].shape != exp.shape or not np.allclose(found[name], exp):
                    return f"{name}: copied {found[name][:, 0].tolist()} expected {exp[:, 0].tolist()} for {case}"
        return None

    def setup(self, ctx):
        from geoh5py.groups import Group

        me = Opaque("self", cls=Group)
        extent, inverse = Opaque("extent"), Opaque("inverse")
        new_group = Opaque("copy_group")
        new_group.attrs["children"] = Opaque("copy_group.children")
        new_group.attrs["workspace"] = Opaque("copy_group.workspace")

        def copy(I, a, kw):
            if ctx.case == "the-copy-lands-in-the-group-itself":
                # parent=self: the new group joins the very child list that is about to be walked
                new_group.attrs["copy_from_extent"] = Opaque("copy_group.copy_from_extent")
                new_group.attrs["copy_from_extent"].maybe_method = lambda I2, a2, kw2: (I2.event("copy-of-the-copy"), Opaque("copy-of-the-copy"))[1]
                me.attrs["children"].items.append(new_group)
            return new_group

        me.attrs["copy"] = Opaque("self.copy")
        me.attrs["copy"].maybe_method = copy
        children = Opaque("self.children")
        me.attrs["children"] = children

        def child_factory(tag):
            ch = Opaque(tag)

            def cfe(I, a, kw, _tag=tag):
                I.event("child.copy_from_extent", extent=a[0] if a else kw.get("extent"), inverse=kw.get("inverse", False), parent=kw.get("parent"), copy_children=kw.get("copy_children", True))
                return Opaque("child-copy")

            ch.attrs["copy_from_extent"] = Opaque(tag + ".copy_from_extent")
            ch.attrs["copy_from_extent"].maybe_method = cfe
            return ch

        orig_child = children.child
        children.child = lambda tag, **kw: child_factory(tag)
        if ctx.case in ("two-children", "the-copy-lands-in-the-group-itself"):
            # exactly two children (an object and a nested group, say): the loop is unrolled, so that "every child is
            # asked" can be stated on every path -- whatever the group's own bounding box says
            me.attrs["children"] = PList([child_factory("child-0"), child_factory("child-1")])
            me.attrs["extent"] = Opaque("self.extent")
            ctx.path.assume(~new_group.none_var())  # the empty copy of the group itself succeeded
        ctx.env.update(extent=extent, inverse=inverse, new_group=new_group)
        return [me, extent], {"inverse": inverse, "copy_children": True}

    def cases(self):
        return ["any-children", "two-children", "the-copy-lands-in-the-group-itself"]

    def post(self, ctx, result):
        e = ctx.env
        evs = self.events_of(ctx, "child.copy_from_extent")
        ok = all(ev["extent"] is e["extent"] and ev["inverse"] is e["inverse"] and ev["parent"] is e["new_group"] and ev["copy_children"] is True for ev in evs)
        ctx.oblige("every-child-selected-with-the-same-extent-and-inverse-flag-into-the-copy", ok)
        if ctx.case == "the-copy-lands-in-the-group-itself":
            ctx.oblige("the-children-copied-are-those-present-at-the-request", len(evs) == 2 and not self.events_of(ctx, "copy-of-the-copy"),
                       note="the new group was found among the children to copy: it is copied into itself (and that copy into itself ...)")
        if ctx.case == "two-children":
            ctx.oblige("no-child-is-skipped-whatever-the-result", len(evs) == 2,
                       note="the group answered (possibly with nothing) without asking each of its children: only the children know whether an element qualifies (nested groups have no selection of their own)")


class BoxIntersectOpaque(Contract):
    """call summary of utils.box_intersect for abstract execution: an unknown truth value"""
    target = "geoh5py/shared/utils.py::box_intersect"
    variant = "opaque-summary"
    symbolic = False
    props = ()

    def apply(self, I, args, kwargs):
        I.event("box_intersect")
        return Opaque("box_intersect(...)")


GroupCopyFromExtent.uses = (BoxIntersectOpaque,)


class DataMaskByExtent(Contract):
    """Data entries follow their vertices or cells: vertex data are selected with the parent's
    vertices, cell data with the parent's cell centres when it has them, otherwise a cell entry is
    selected exactly when all the vertices of its cell pass the (possibly inverted) test -- the
    same rule CellObject.mask_by_extent applies to the geometry."""
    target = "geoh5py/data/data.py::Data.mask_by_extent"
    props = ("C13",)
    uses = (MaskByExtent,)
    attr_overrides = {"association": lambda I, obj: obj.fields["_association"], "parent": lambda I, obj: obj.fields["_parent"]}
    trusted = ("Data.association / Data.parent getters return the stored fields",)

    def cases(self):
        return [(k, e) for k in ("vertex", "cell-centroids", "cell-2", "cell-3", "object") for e in (2, 3)]

    def setup(self, ctx):
        from geoh5py.data import DataAssociationEnum as A_, FloatData

        kind, ext_dim = ctx.case
        n, nc = ctx.int("n", 0), ctx.int("nc", 0)
        V = sym_arr("vertices", (n.e, 3), "real")
        attrs = {"vertices": V}
        w = 0
        if kind == "cell-centroids":
            attrs["centroids"] = sym_arr("centroids", (nc.e, 3), "real")
        elif kind.startswith("cell-"):
            w = int(kind[-1])
            C = sym_arr("cells", (nc.e, w), "int")
            c, j = z3.Ints(f"{fresh_name('c')} {fresh_name('j')}")
            ctx.assume(z3.ForAll([c, j], z3.Implies(z3.And(c >= 0, c < nc.e, j >= 0, j < w), z3.And(C.elem(c, j) >= 0, C.elem(c, j) < n.e))))
            attrs["cells"] = C
        parent = AbsObj("parent", attrs)
        assoc = {"vertex": A_.VERTEX, "object": A_.OBJECT}.get(kind, A_.CELL)
        me = Obj(FloatData, {"_association": assoc, "_parent": parent})
        E = sym_arr("ext", (2, ext_dim), "real")
        inv = sym("inverse", "bool")
        ctx.env.update(V=V, E=E, inv=inv, n=n, nc=nc, w=w, axes=ext_dim, parent=parent)
        return [me, E], {"inverse": inv}

    def post(self, ctx, result):
        e = ctx.env
        kind, _ = ctx.case
        if kind == "object":
            ctx.oblige("object-data-has-no-spatial-selection", result is None)
            return
        ok = isinstance(result, Arr) and result.ndim == 1
        ctx.oblige("returns-boolean-mask", ok)
        if not ok:
            return
        p = z3.Int(fresh_name("p"))
        sel = lambda L, q: z3.Xor(e["inv"].e, in_box(L, e["E"], q, e["axes"]))
        if kind == "vertex":
            ctx.oblige("one-entry-per-vertex", Z(result.shape[0]) == e["n"].e)
            ctx.oblige("vertex-entry-selected-iff-its-vertex-passes-the-test", z3.Implies(z3.And(p >= 0, p < e["n"].e), result.elem(p) == sel(e["V"], p)))
        elif kind == "cell-centroids":
            cen = e["parent"].attrs["centroids"]
            ctx.oblige("one-entry-per-cell", Z(result.shape[0]) == e["nc"].e)
            ctx.oblige("cell-entry-selected-iff-its-centre-passes-the-test", z3.Implies(z3.And(p >= 0, p < e["nc"].e), result.elem(p) == sel(cen, p)))
        else:
            C = e["parent"].attrs["cells"]
            ctx.oblige("one-entry-per-cell", Z(result.shape[0]) == e["nc"].e)
            ctx.oblige("cell-entry-selected-iff-all-its-vertices-pass-the-test", z3.Implies(z3.And(p >= 0, p < e["nc"].e), result.elem(p) == z3.And(*[sel(e["V"], C.elem(p, j)) for j in range(e["w"])])),
                       note="the inverse option must invert the vertex test, as for the geometry itself")


class GridMaskByExtent(Contract):
    """Grid cells are selected exactly when their centres pass the test; nothing is returned only
    when the box misses the grid's bounding box (or the grid has no geometry)."""
    target = "geoh5py/objects/grid_object.py::GridObject.mask_by_extent"
    props = ("C13",)
    uses = (MaskByExtent, BoxIntersect)
    attr_overrides = {"centroids": lambda I, obj: obj.fields["_centroids"], "extent": lambda I, obj: obj.fields["_extent"]}
    trusted = ("GridObject.centroids (C17) and ObjectBase.extent (bounding box of the centroids) getters are summarised by their stated meaning",)

    def cases(self):
        return [2, 3]

    def setup(self, ctx):
        from geoh5py.objects import BlockModel

        n = ctx.int("n", 1)
        cen = sym_arr("centroids", (n.e, 3), "real")
        B = sym_arr("bbox", (2, 3), "real")
        q = z3.Int(fresh_name("q"))
        rng = z3.And(q >= 0, q < n.e)
        # extent = [min, max] of the centres per axis: a bound that is attained
        for a in range(3):
            ctx.assume(z3.ForAll([q], z3.Implies(rng, z3.And(B.elem(0, a) <= cen.elem(q, a), cen.elem(q, a) <= B.elem(1, a)))))
            ctx.assume(z3.Exists([q], z3.And(rng, cen.elem(q, a) == B.elem(0, a))))
            ctx.assume(z3.Exists([q], z3.And(rng, cen.elem(q, a) == B.elem(1, a))))
        me = Obj(BlockModel, {"_centroids": cen, "_extent": B})
        E = sym_arr("ext", (2, ctx.case), "real")
        ctx.assume(z3.And(*[E.elem(0, a) <= E.elem(1, a) for a in range(ctx.case)]))
        inv = sym("inverse", "bool")
        ctx.env.update(cen=cen, E=E, inv=inv, n=n, axes=ctx.case)
        return [me, E], {"inverse": inv}

    def post(self, ctx, result):
        e = ctx.env
        p, q = z3.Int(fresh_name("p")), z3.Int(fresh_name("q"))
        rng = lambda x: z3.And(x >= 0, x < e["n"].e)
        miss = z3.Or(*[z3.Or(z3.ForAll([q], z3.Implies(rng(q), e["cen"].elem(q, a) > e["E"].elem(1, a))), z3.ForAll([q], z3.Implies(rng(q), e["cen"].elem(q, a) < e["E"].elem(0, a)))) for a in range(e["axes"])])
        if result is None:
            ctx.oblige("nothing-returned-only-when-bounding-box-is-missed", miss)
            return
        ctx.oblige("mask-returned-only-when-bounding-box-is-met", z3.Not(miss))
        ok = isinstance(result, Arr) and result.ndim == 1
        ctx.oblige("returns-boolean-mask", ok)
        if ok:
            ctx.oblige("one-entry-per-cell", Z(result.shape[0]) == e["n"].e)
            ctx.oblige("cell-selected-iff-its-centre-is-inside-xor-inverse", z3.Implies(rng(p), result.elem(p) == z3.Xor(e["inv"].e, in_box(e["cen"], e["E"], p, e["axes"]))))


class Grid2DCopyFromExtent(Contract):
    """Bounded stand-in (the sub-grid arithmetic uses trigonometric rotation matrices and
    np.kron/argmax/sum, outside the engine): the extent copy of a 2-D grid is the smallest
    sub-grid covering the selected cells -- spanning first to last selected column and row --
    whose centres coincide with the original cells' and whose values are blanked outside the box."""
    target = "geoh5py/objects/grid2d.py::Grid2D.copy_from_extent"
    variant = "native-oracle"
    symbolic = False
    has_native = True
    props = ("C13",)
    bounded_scope = ("grids 3x2, 3x3, 4x3 (cell sizes 1 x 2), rotations {0, 30, 45, 90, atan(1/2)} deg x dips {0, 45, 90} deg; every box spanned by a pair of cell centres "
                     "(2-D and 3-D extents, widened by 1e-6) plus the all-covering and a disjoint box: exhaustive in the quick tier for 3x2 and 4x3, all three shapes in the thorough tier")

    ROT = (0.0, 30.0, 45.0, 90.0, 26.565051177078)
    DIP = (0.0, 45.0, 90.0)

    def native_cases(self, tier, rng):
        shapes = [(3, 2), (4, 3)] if tier == "quick" else [(3, 2), (3, 3), (4, 3), (5, 2)]
        for nu, nv in shapes:
            for rot in self.ROT:
                for dip in self.DIP:
                    yield {"nu": nu, "nv": nv, "rotation": rot, "dip": dip}

    @staticmethod
    def one(g, cen, vals, nu, nv, box):
        box = np.array(box, dtype=float)
        ax = box.shape[1]
        sel = np.all((cen[:, :ax] >= box[0]) & (cen[:, :ax] <= box[1]), axis=1)
        out = g.copy_from_extent(box)
        if not sel.any():
            return None if out is None else "a grid is returned though no cell centre lies inside the box"
        if out is None:
            return "nothing is returned though cell centres lie inside the box"
        S = sel.reshape(nv, nu)
        ii, jj = np.where(S.any(axis=0))[0], np.where(S.any(axis=1))[0]
        i0, i1, j0, j1 = ii.min(), ii.max(), jj.min(), jj.max()
        if (out.u_count, out.v_count) != (i1 - i0 + 1, j1 - j0 + 1):
            return f"sub-grid is {out.u_count}x{out.v_count} but the smallest covering sub-grid is {i1 - i0 + 1}x{j1 - j0 + 1} (selected columns {ii.tolist()}, rows {jj.tolist()})"
        idx = np.array([i + j * nu for j in range(j0, j1 + 1) for i in range(i0, i1 + 1)])
        if not np.allclose(out.centroids, cen[idx], atol=1e-9):
            return "the sub-grid's cell centres are not the original cells' centres"
        d = out.get_data("d")[0].values
        exp = np.where(sel[idx], vals[idx], np.nan)
        if d is None or len(d) != len(exp) or not np.allclose(d, exp, equal_nan=True):
            return f"values {None if d is None else np.asarray(d).tolist()} expected {exp.tolist()} (original values inside the box, blank outside)"
        return None

    def native_check(self, case):
        from geoh5py.objects import Grid2D
        from geoh5py.workspace import Workspace

        nu, nv = case["nu"], case["nv"]
        with Workspace() as ws:
            g = Grid2D.create(ws, origin=[1.0, 2.0, 3.0], u_cell_size=1.0, v_cell_size=2.0, u_count=nu, v_count=nv, rotation=case["rotation"], dip=case["dip"])
            vals = np.arange(nu * nv, dtype=float) + 1
            g.add_data({"d": {"values": vals.copy()}})
            cen = np.array(g.centroids)
            boxes = [[(cen.min(axis=0) - 1).tolist(), (cen.max(axis=0) + 1).tolist()], [(cen.max(axis=0)[:2] + 5).tolist(), (cen.max(axis=0)[:2] + 6).tolist()]]
            for a, b in itertools.combinations_with_replacement(range(nu * nv), 2):
                lo, hi = np.minimum(cen[a], cen[b]) - 1e-6, np.maximum(cen[a], cen[b]) + 1e-6
                boxes.append([lo[:2].tolist(), hi[:2].tolist()])
                boxes.append([lo.tolist(), hi.tolist()])
            for box in boxes:
                bad = self.one(g, cen, vals, nu, nv, box)
                if bad:
                    return f"{bad}; grid {nu}x{nv} rotation {case['rotation']} dip {case['dip']} box {box}"
        return None


CONTRACTS = [MaskByExtent, BoxIntersect, PointsMaskByExtent, CellMaskByExtent, DataMaskByExtent, GridMaskByExtent, Grid2DCopyFromExtent, ContainerCopyFromExtent, BoxIntersectOpaque, GroupCopyFromExtent]


class DataCopyMasked(Contract):
    """Data.copy with a mask: onto a smaller parent the copy holds exactly the selected entries in
    order; onto a parent of the same size it holds the selected entries in place and no-data
    elsewhere; in both cases the source's own values are neither modified nor shared."""
    target = "geoh5py/data/data.py::Data.copy"
    props = ("C13", "C12", "C07")
    attr_overrides = {"values": lambda I, obj: obj.fields["_values"], "association": lambda I, obj: obj.fields["_association"],
                      "parent": lambda I, obj: obj.fields["_parent"], "nan_value": lambda I, obj: obj.fields["_nan"]}
    trusted = ("Data.values / association / parent / nan_value getters return the stored fields",)

    def cases(self):
        return [(assoc, size) for assoc in ("VERTEX", "CELL") for size in ("smaller-parent", "same-size-parent")]

    def setup(self, ctx):
        from geoh5py.data import DataAssociationEnum as A_, FloatData

        assoc, size = ctx.case
        n = ctx.int("n", 1)
        V = sym_arr("values", (n.e,), "real")
        V.frozen = True
        M = sym_arr("mask", (n.e,), "bool")
        m = ctx.int("target_count", 0)
        ctx.assume(m.e < n.e if size == "smaller-parent" else m.e >= n.e)
        passed = {}

        def copy_to_parent(I, a, kw):
            passed.update(kw)
            I.event("copy_to_parent", entity=a[0], parent=a[1])
            return AbsObj("new-data", {})

        target = AbsObj("target-parent", {"n_vertices": m if assoc == "VERTEX" else mk(z3.IntVal(-7), "int"), "n_cells": m if assoc == "CELL" else mk(z3.IntVal(-7), "int"),
                                          "workspace": AbsObj("workspace", {}, {"copy_to_parent": copy_to_parent})})
        nan = sym("nan_value", "real")
        me = Obj(FloatData, {"_values": V, "_association": getattr(A_, assoc), "_parent": AbsObj("own-parent", {}), "_nan": nan})
        ctx.env.update(V=V, M=M, n=n, nan=nan, passed=passed, target=target)
        return [me], {"parent": target, "mask": M}

    def post(self, ctx, result):
        e = ctx.env
        assoc, size = ctx.case
        W = e["passed"].get("values")
        ok = isinstance(W, Arr) and W.ndim == 1
        ctx.oblige("the-copy-is-given-an-array-of-values", ok)
        mutated = [p for k, p in ctx.path.events if k == "mutate" and p.get("frozen")]
        ctx.oblige("the-sources-values-are-not-modified", not mutated, note="the source data's own array is written to while it is copied")
        if not ok:
            return
        ctx.oblige("the-copy-does-not-share-the-sources-array", W is not e["V"])
        i = z3.Int(fresh_name("i"))
        if size == "same-size-parent":
            ctx.oblige("one-entry-per-source-entry", Z(W.shape[0]) == e["n"].e)
            ctx.oblige("selected-entries-keep-their-value-others-are-no-data",
                       z3.Implies(z3.And(i >= 0, i < e["n"].e), W.elem(i) == z3.If(e["M"].elem(i), e["V"].elem(i), e["nan"].e)))
        else:
            sel = getattr(W, "sel", None)
            ctx.oblige("the-copy-holds-a-selection-of-the-source", sel is not None)
            if sel is not None:
                _, keep, pos, rank = sel
                mm = Z(W.shape[0])
                ctx.oblige("exactly-the-selected-entries-in-order", z3.Implies(z3.And(i >= 0, i < mm), z3.And(W.elem(i) == e["V"].elem(pos(i)), e["M"].elem(pos(i)))))
                j = z3.Int(fresh_name("j"))
                ctx.oblige("every-selected-entry-is-kept", z3.Implies(z3.And(j >= 0, j < e["n"].e, e["M"].elem(j)), z3.And(rank(j) < mm, pos(rank(j)) == j)))


class DataCopyRefusedMask(DataCopyMasked):
    """Data.copy: a mask that is not a boolean array with one entry per value -- an integer array of the
    right length (it would be read as positions), a boolean array of another length -- is refused
    before anything is copied."""
    variant = "refused-masks"

    def cases(self):
        return [(assoc, bad) for assoc in ("VERTEX", "CELL") for bad in ("integer-mask-of-the-right-length", "boolean-mask-of-another-length", "integer-mask-of-another-length")]

    def setup(self, ctx):
        assoc, bad = ctx.case
        real = ctx.case
        ctx.case = (assoc, "smaller-parent")
        args, kw = super().setup(ctx)
        ctx.case = real
        n = ctx.env["n"]
        length = n.e if bad == "integer-mask-of-the-right-length" else ctx.int("mask_length", 0).e
        if bad != "integer-mask-of-the-right-length":
            ctx.assume(length != n.e)
        kw["mask"] = sym_arr("mask", (length,), "bool" if bad.startswith("boolean") else "int")
        return args, kw

    def post(self, ctx, result):
        ctx.oblige("a-mask-that-is-not-one-boolean-per-value-is-refused", False, note="the copy went ahead")

    def post_raises(self, ctx, sig):
        copied = [k for k, p in ctx.path.events if k == "copy_to_parent"]
        ctx.oblige("refused-with-ValueError-before-anything-is-copied", sig.exc_class is ValueError and not copied, kind="post-exc", note=f"{sig.exc_class.__name__}")


CONTRACTS = CONTRACTS + [DataCopyMasked, DataCopyRefusedMask]


class DrillholeClipNative(Contract):
    """Drillholes are selected as a whole by their collar (Drillhole.mask_by_extent: "uses the collar
    location only"): a box that holds the collar yields a copy of the hole with its surveys and all
    of its logs, a box that does not yields nothing, the inverse option swaps the two -- for plain
    drillholes and for holes of a drillhole group alike, with or without data."""
    target = "geoh5py/objects/drillhole.py::Drillhole.mask_by_extent"
    variant = "whole-hole-by-collar"
    symbolic = False
    has_native = True
    native_shards = 4
    props = ("C13",)
    bounded_scope = "plain and grouped (concatenated) drillholes x {no data, a depth log, a depth log and an interval table} x 4 boxes (around the collar, touching it, away from it but over the trace, far away) x both inverse values x 2-D and 3-D boxes (exhaustive)"

    def native_cases(self, tier, rng):
        for grouped in (False, True):
            for data in ("none", "depth", "depth+interval"):
                for box in ("around", "touching", "over-trace-only", "far"):
                    for inverse in (False, True):
                        for dim in (2, 3):
                            yield {"grouped": grouped, "data": data, "box": box, "inverse": inverse, "dim": dim}

    def native_check(self, case):
        import os
        import shutil
        import tempfile

        from geoh5py.groups import ContainerGroup, DrillholeGroup
        from geoh5py.objects import Drillhole
        from geoh5py.workspace import Workspace

        collar = np.array([10.0, 20.0, 100.0])
        boxes = {"around": [[5.0, 15.0, 50.0], [15.0, 25.0, 150.0]], "touching": [[10.0, 20.0, 100.0], [30.0, 40.0, 120.0]],
                 "over-trace-only": [[40.0, 15.0, -100.0], [80.0, 25.0, 99.0]], "far": [[500.0, 500.0, 0.0], [600.0, 600.0, 10.0]]}
        box = np.array(boxes[case["box"]])[:, : case["dim"]]
        inside = case["box"] in ("around", "touching")
        d = tempfile.mkdtemp()
        try:
            with Workspace.create(os.path.join(d, "h.geoh5"), version=2.0) as ws:
                parent = DrillholeGroup.create(ws, name="DH") if case["grouped"] else ContainerGroup.create(ws, name="G")
                target = ContainerGroup.create(ws, name="clips") if not case["grouped"] else DrillholeGroup.create(ws, name="DHclips")
                hole = Drillhole.create(ws, name="hole", parent=parent, collar=collar, surveys=np.c_[np.r_[0.0, 50.0, 100.0], np.ones(3) * 90.0, np.ones(3) * -45.0])
                logs = {}
                if case["data"] != "none":
                    logs["log"] = np.arange(4.0)
                    hole.add_data({"log": {"depth": np.array([10.0, 20.0, 30.0, 40.0]), "values": logs["log"]}})
                if case["data"] == "depth+interval":
                    logs["assay"] = np.arange(2.0) + 7
                    hole.add_data({"assay": {"from-to": np.array([[5.0, 15.0], [15.0, 25.0]]), "values": logs["assay"]}})
                try:
                    out = hole.copy_from_extent(box, parent=target, inverse=case["inverse"])
                except Exception as exc:
                    return f"copy_from_extent raised {type(exc).__name__}: {exc} ({case})"
                want = inside != case["inverse"]
                if not want:
                    # "nothing is returned only when the box misses the bounding box or no element qualifies"
                    return None if out is None else f"a hole whose collar does not qualify was copied ({case})"
                if out is None:
                    if case["inverse"] and not inside:
                        return None  # the box misses the hole's bounding box (its collar): nothing returned is allowed
                    return f"the collar qualifies but nothing was copied ({case})"
                got_collar = np.array([out.collar["x"], out.collar["y"], out.collar["z"]], dtype=float)
                if not np.allclose(got_collar, collar) or not np.allclose(np.asarray(out.surveys, dtype=float), np.asarray(hole.surveys, dtype=float)):
                    return f"the copied hole has another collar or other surveys ({case})"
                for name, vals in logs.items():
                    dat = out.get_data(name)
                    src = np.asarray(hole.get_data(name)[0].values, dtype=float)
                    if not dat or dat[0].values is None or not np.array_equal(np.asarray(dat[0].values, dtype=float), src, equal_nan=True):
                        return f"log '{name}' of the copied hole is {None if not dat or dat[0].values is None else np.asarray(dat[0].values).tolist()}, the source holds {src.tolist()} ({case})"
            return None
        finally:
            shutil.rmtree(d, ignore_errors=True)


CONTRACTS = CONTRACTS + [DrillholeClipNative]


class WholeObjectDataClip(Contract):
    """Data that belong to the object as a whole (OBJECT association: a few numbers, a note) have no
    per-element entries to select: a clip that keeps part of the object carries them over unchanged,
    next to the selected vertex / cell data."""
    target = "geoh5py/objects/grid2d.py::Grid2D.copy_from_extent"
    variant = "whole-object-data"
    symbolic = False
    has_native = True
    props = ("C13",)
    bounded_scope = "points, curve, surface, 2-D grid, block model with element data plus an object-associated numeric array (3 values) and an object-associated text; box keeping part of the object; plain and inverse (exhaustive)"

    def native_cases(self, tier, rng):
        for kind in ("points", "curve", "surface", "grid2d", "blockmodel"):
            for inverse in (False, True):
                yield {"kind": kind, "inverse": inverse}

    def native_check(self, case):
        from contracts.copy_wf import EXTENTS, build
        from geoh5py.workspace import Workspace

        with Workspace() as ws:
            obj = build(ws, case["kind"])
            obj.add_data({"whole_numbers": {"values": np.array([7.0, 8.0, 9.0]), "association": "OBJECT"}})
            obj.add_data({"whole_note": {"values": "surveyed in 2019", "association": "OBJECT", "type": "text"}})
            try:
                out = obj.copy_from_extent(EXTENTS["keeps-part"], inverse=case["inverse"])
            except Exception as exc:
                return f"clipping a {case['kind']} that holds object-associated data raised {type(exc).__name__}: {exc} ({case})"
            if out is None:
                return None  # nothing qualifies (a surface whose remaining vertices form no cell): nothing to carry over
            num = [c for c in out.children if c.name == "whole_numbers"]
            note = [c for c in out.children if c.name == "whole_note"]
            if len(num) != 1 or num[0].values is None or not np.allclose(np.asarray(num[0].values, dtype=float), [7.0, 8.0, 9.0]):
                return f"the object-associated numbers of the clipped {case['kind']} read {[None if c.values is None else np.asarray(c.values).tolist() for c in num]} instead of [7, 8, 9] ({case})"
            if len(note) != 1 or str(note[0].values) != "surveyed in 2019":
                return f"the object-associated note of the clipped {case['kind']} reads {[c.values for c in note]} ({case})"
        return None


CONTRACTS = CONTRACTS + [WholeObjectDataClip]


class GridClipDataKinds(Contract):
    """Clips of cell-based objects that keep their geometry (block models, octrees: the copy holds
    every cell, the values outside the selection are blanked) and of 2-D grids, for every kind of
    cell data: inside the selection each cell keeps its value, outside it reads as the kind's
    no-data (NaN, the integer code, and for booleans never as True where the source was False)."""
    target = "geoh5py/objects/grid_object.py::GridObject.copy"
    variant = "clip-by-data-kind"
    symbolic = False
    has_native = True
    props = ("C13",)
    bounded_scope = "block model (3x3x2), octree (4x4x4 base), 2-D grid (6x5) with float, integer, boolean, referenced and text cell data; 3 boxes (keeps part, keeps all, keeps a corner) x both inverse values, plus the 2-D grid rotated by 30 and -50 degrees (exhaustive); compared live and by a later reader of the file"

    def native_cases(self, tier, rng):
        for kind in ("blockmodel", "octree", "grid2d"):
            for box in ("keeps-part", "keeps-all", "corner"):
                for inverse in (False, True):
                    yield {"kind": kind, "box": box, "inverse": inverse}
        # a rotated 2-D grid: the smallest covering sub-grid holds cells outside the box, which are blanked
        for rot in (30.0, -50.0):
            for box in ("keeps-part", "corner"):
                yield {"kind": "grid2d", "box": box, "inverse": False, "rotation": rot}

    def native_check(self, case):
        from contracts.copy_wf import EXTENTS, build
        from geoh5py.workspace import Workspace

        import os
        import shutil
        import tempfile

        boxes = dict(EXTENTS, corner=np.array([[-5.0, -5.0], [12.0, 12.0]]))
        box = boxes[case["box"]]
        d = tempfile.mkdtemp()
        try:
            return self._run(case, box, os.path.join(d, "clip.geoh5"))
        finally:
            shutil.rmtree(d, ignore_errors=True)

    def _run(self, case, box, path):
        from contracts.copy_wf import build
        from geoh5py.workspace import Workspace

        with Workspace.create(path) as ws:
            obj = build(ws, case["kind"])
            if case.get("rotation"):
                obj.rotation = case["rotation"]
            n = obj.n_cells
            src = {
                "f": np.arange(n, dtype=float) + 0.5,
                "i": (np.arange(n) % 7 + 1).astype("int32"),
                "b": (np.arange(n) % 3 == 0),
                "r": (np.arange(n) % 2 + 1).astype("uint32"),
                "t": np.array([f"c{k}" for k in range(n)]),
            }
            obj.add_data({"f": {"values": src["f"]}, "i": {"values": src["i"]}, "b": {"values": src["b"], "type": "boolean"},
                          "r": {"values": src["r"], "type": "referenced", "value_map": {1: "A", 2: "B"}}, "t": {"values": src["t"], "type": "text"}})
            cent = np.asarray(obj.centroids, dtype=float)
            inside = np_in_box(cent, box, case["inverse"])
            try:
                out = obj.copy_from_extent(box, inverse=case["inverse"])
            except Exception as exc:
                return f"clipping a {case['kind']} holding float / integer / boolean / referenced / text cell data raised {type(exc).__name__}: {exc} ({case})"
            if out is None:
                return None if not inside.any() or case["inverse"] else f"{int(inside.sum())} cell centres qualify but nothing was copied ({case})"
            out_uid = out.uid
            bad = self._compare(out, cent, inside, src, case, "")
            if bad:
                return bad
            del out, obj
        # what a later reader of the file finds on the clipped object
        with Workspace(path, mode="r") as ws:
            return self._compare(ws.get_entity(out_uid)[0], cent, inside, src, case, " after re-opening the file")

    @staticmethod
    def _compare(out, cent, inside, src, case, when):
        if True:
            oc = np.asarray(out.centroids, dtype=float)
            # each cell of the copy is a cell of the source (same centre): find it
            idx = []
            for c in oc:
                hit = np.where(np.all(np.isclose(cent, c, atol=1e-9), axis=1))[0]
                if len(hit) != 1:
                    return f"a cell of the clipped {case['kind']} sits at {c.tolist()}, which is no cell centre of the source ({case})"
                idx.append(int(hit[0]))
            idx = np.array(idx, dtype=int)
            sel = inside[idx]
            for name, vals in src.items():
                got = out.get_data(name)
                if not got or got[0].values is None:
                    return f"data '{name}' is missing on the clipped {case['kind']} ({case})"
                g = np.atleast_1d(np.asarray(got[0].values))  # one entry of text is stored, and read back, as a bare string
                if len(g) != len(idx):
                    return f"data '{name}' has {len(g)} entries for {len(idx)} cells ({case})"
                want = vals[idx]
                if name == "t":
                    if [str(x) for x in g[sel]] != [str(x) for x in want[sel]]:
                        return f"text values inside the box changed ({case})"
                    continue
                if name == "b":
                    gb = np.asarray(g).astype(float)
                    if not np.array_equal(gb[sel] == 1, want[sel]):
                        return f"boolean values inside the box changed ({case})"
                    if np.any((gb[~sel] == 1) & ~want[~sel]):
                        return f"boolean cells outside the box read True although the source holds False there: {np.asarray(g)[~sel].tolist()[:8]} ({case})"
                    continue
                gf, wf = np.asarray(g, dtype=float), np.asarray(want, dtype=float)
                if not np.allclose(gf[sel], wf[sel]):
                    return f"'{name}' values inside the box changed: {gf[sel].tolist()[:6]} vs {wf[sel].tolist()[:6]} ({case})"
                blank = np.isnan(gf[~sel]) | (gf[~sel] == -2147483648.0) | (gf[~sel] == 0)
                if name in ("f",) and not np.all(np.isnan(gf[~sel])):
                    return f"float cells outside the box are not blanked: {gf[~sel].tolist()[:6]} ({case})"
                if name in ("i", "r") and not np.all(blank):
                    return f"'{name}' cells outside the box keep values {gf[~sel].tolist()[:6]} ({case})"
        return None


CONTRACTS = CONTRACTS + [GridClipDataKinds]


class ObjectCopyCapture(Contract):
    """summary of ObjectBase.copy for Points.copy: records what it is given, returns the new object."""
    target = "geoh5py/objects/object_base.py::ObjectBase.copy"
    symbolic = False
    props = ()
    seen = {}

    def apply(self, I, args, kwargs):
        self.seen.clear()
        self.seen.update(kwargs)
        I.event("object-copy", entity=args[0])
        return AbsObj("new-object", {})


class PointsCopyMasked(Contract):
    """Points.copy with a mask: the copy is built from exactly the selected vertices in order (and every
    selected one), the mask and the other options reach the generic copy unchanged (the data follow the
    same mask there), the source's vertices are not modified; a mask that has not one entry per vertex is
    refused before anything is copied; without a mask nothing is selected."""
    target = "geoh5py/objects/points.py::Points.copy"
    props = ("C07", "C12", "C13")
    attr_overrides = {"vertices": lambda I, obj: obj.fields["_vertices"]}
    trusted = ("Points.vertices getter returns the stored array",)
    uses = (ObjectCopyCapture,)

    def cases(self):
        return ["mask-of-the-right-length", "mask-of-another-length", "no-mask"]

    def setup(self, ctx):
        from geoh5py.objects import Points

        n = ctx.int("n", 1)
        V = sym_arr("vertices", (n.e, 3), "real")
        V.frozen = True
        length = n.e if ctx.case != "mask-of-another-length" else ctx.int("mask_length", 0).e
        if ctx.case == "mask-of-another-length":
            ctx.assume(length != n.e)
        M = None if ctx.case == "no-mask" else sym_arr("mask", (length,), "bool")
        me = Obj(Points, {"_vertices": V})
        parent = AbsObj("target-parent", {})
        ObjectCopyCapture.seen.clear()
        ctx.env.update(V=V, M=M, n=n, parent=parent, me=me)
        return [me], {"parent": parent, "copy_children": True, "clear_cache": False, "mask": M}

    def post(self, ctx, result):
        e = ctx.env
        seen = ObjectCopyCapture.seen
        if ctx.case == "mask-of-another-length":
            ctx.oblige("a-mask-without-one-entry-per-vertex-is-refused", False, note="the copy went ahead")
            return
        ctx.oblige("parent-and-options-reach-the-generic-copy-unchanged", seen.get("parent") is e["parent"] and seen.get("copy_children") is True and seen.get("clear_cache") is False and seen.get("mask") is e["M"])
        mutated = [p for k, p in ctx.path.events if k == "mutate" and p.get("frozen")]
        ctx.oblige("the-sources-vertices-are-not-modified", not mutated)
        W = seen.get("vertices")
        if ctx.case == "no-mask":
            ctx.oblige("without-a-mask-no-selection-is-made", W is None)
            return
        ok = isinstance(W, Arr) and W.ndim == 2
        ctx.oblige("the-copy-is-given-the-selected-vertices", ok and getattr(W, "sel", None) is not None)
        if not ok or getattr(W, "sel", None) is None:
            return
        _, keep, pos, rank = W.sel
        i, j, c = z3.Int(fresh_name("i")), z3.Int(fresh_name("j")), z3.Int(fresh_name("c"))
        mm = Z(W.shape[0])
        ctx.oblige("exactly-the-selected-vertices-in-order", z3.Implies(z3.And(i >= 0, i < mm, c >= 0, c < 3), z3.And(W.elem(i, c) == e["V"].elem(pos(i), c), e["M"].elem(pos(i)))))
        ctx.oblige("every-selected-vertex-is-kept", z3.Implies(z3.And(j >= 0, j < e["n"].e, e["M"].elem(j)), z3.And(rank(j) < mm, pos(rank(j)) == j)))

    def post_raises(self, ctx, sig):
        if ctx.case == "mask-of-another-length":
            ctx.oblige("refused-with-ValueError-before-anything-is-copied", sig.exc_class is ValueError and not [k for k, p in ctx.path.events if k == "object-copy"], kind="post-exc")
        else:
            ctx.oblige("a-valid-masked-copy-is-not-refused", False, kind="post-exc", note=f"{sig.exc_class.__name__} at {sig.origin}")


CONTRACTS = CONTRACTS + [ObjectCopyCapture, PointsCopyMasked]
