"""Bounded stand-ins for the session-level quantifiers of C10 (read-only workspaces never change
the file) and C11 (closing leaves a complete file and a released handle).  Both drive the public
API on real files and observe what the properties name: the bytes of the file, the mode of the
handle, the error raised, the content after re-opening."""
from __future__ import annotations

import gc
import hashlib
import io
import json
import os
import shutil
import tempfile
from copy import deepcopy

import numpy as np

from contracts.histories import diff_snap, tree_snapshot, wf_file
from pyvc.contracts import Contract


def _sha(path):
    with open(path, "rb") as fh:
        return hashlib.sha256(fh.read()).hexdigest()


def _project(path, rootless=False, holes=False, no_root_group=False):
    import h5py

    from geoh5py.groups import ContainerGroup
    from geoh5py.objects import Curve, Points
    from geoh5py.workspace import Workspace

    with Workspace.create(path) as ws:
        g = ContainerGroup.create(ws, name="grp")
        p = Points.create(ws, name="pts", vertices=np.arange(18.0).reshape(6, 3), parent=g)
        a = p.add_data({"d": {"values": np.arange(6.0)}})
        p.add_data({"e": {"values": np.arange(6.0) + 10}})
        p.add_data_to_group(a, "pg")
        Curve.create(ws, name="crv", vertices=np.arange(12.0).reshape(4, 3))
        if holes:
            from geoh5py.groups import DrillholeGroup
            from geoh5py.objects import Drillhole

            dg = DrillholeGroup.create(ws, name="DH")
            dh = Drillhole.create(ws, name="H0", parent=dg, collar=[0.0, 0.0, 0.0], surveys=np.c_[np.r_[0.0, 10.0], np.zeros(2), np.ones(2) * -90.0])
            dh.add_data({"Au": {"depth": np.array([1.0, 2.0, 3.0]), "values": np.arange(3.0)}})
    if rootless or no_root_group:
        with h5py.File(path, "r+") as f:
            proj = f[list(f)[0]]
            rid = proj["Root"].attrs["ID"]
            rid = rid.decode() if isinstance(rid, bytes) else str(rid)
            del proj["Root"]
            if no_root_group:
                # the root group's own node is absent too: every stored entity is then found through the flat containers only
                del proj["Groups"][rid]


# ------------------------------------------------------------------------------------------
# C10
# ------------------------------------------------------------------------------------------

RO_OPS = ("get", "values", "children", "rename", "set_values", "set_vertices", "create", "add_data", "remove", "copy_same", "copy_other", "pg_add", "type_edit", "root_type_edit", "remove_child", "remove_child_held",
          "hole_add_data", "hole_add_empty_channel", "hole_rename", "hole_values", "hole_data_flag", "hole_surveys", "hole_remove_data",
          "close_open", "close_open_r", "fetch_active_r", "fetch_active_rw", "idle")


class ReadOnlyHistories(Contract):
    target = "geoh5py/workspace/workspace.py::Workspace._io_call"
    variant = "read-only-histories"
    symbolic = False
    has_native = True
    native_shards = 4
    props = ("C10",)
    bounded_scope = ("a 5-entity project (plus a drillhole group with one hole and a depth log when the sequence touches drillholes) opened with mode 'r'; sequences of 3-8 calls over getters, setters (on entities and on entity types, the root's included), creations, removals (through the workspace and through the parent, also repeated with a handle kept from an earlier attempt or session), copies, property-group edits and creations, data and objects given another parent, close/re-open "
                     "(with and without an explicit mode) and fetch_active_workspace: after every call the file's sha256 is unchanged, an open handle reports mode 'r', and every "
                     "call that has to write raised; 21 fixed (+ 4 on files without their Root link / root group) + 40 seeded sequences (quick) / 600 (thorough); plus the ui.json loader and monitoring-directory helpers on ordinary "
                     "and root-less files")

    FIXED = [
        [("rename", 0), ("set_values", 0), ("create", 0), ("remove", 0)],
        [("close_open", 0), ("rename", 0), ("create", 0)],
        [("close_open", 0), ("close_open", 0), ("set_values", 0), ("add_data", 0)],
        [("get", 0), ("values", 0), ("children", 0), ("copy_other", 0), ("idle", 0)],
        [("fetch_active_r", 0), ("rename", 0), ("close_open", 0), ("set_vertices", 0)],
        [("fetch_active_rw", 0), ("rename", 0)],
        [("copy_same", 0), ("pg_add", 0), ("remove", 1)],
        [("close_open_r", 0), ("create", 0), ("close_open", 0), ("remove", 0)],
        [("values", 0), ("set_values", 1), ("values", 1), ("close_open", 0), ("values", 0), ("add_data", 0)],
        [("children", 0), ("close_open", 0), ("children", 0), ("rename", 1), ("close_open", 0), ("rename", 0)],
        [("type_edit", 0), ("type_edit", 1), ("type_edit", 2), ("type_edit", 3), ("root_type_edit", 0)],
        [("root_type_edit", 0), ("close_open", 0), ("root_type_edit", 0), ("type_edit", 5)],
        [("remove_child", 1), ("remove_child_held", 1), ("close_open", 0), ("remove_child_held", 1)],
        [("remove", 1), ("rename", 1), ("set_values", 1), ("set_vertices", 1), ("remove", 1), ("add_data", 1)],
        [("remove", 0), ("set_vertices", 0), ("rename", 0), ("close_open", 0), ("rename", 0)],
        [("hole_add_data", 0), ("hole_add_empty_channel", 0), ("hole_rename", 0), ("hole_values", 0)],
        [("hole_add_empty_channel", 0), ("close_open", 0), ("hole_data_flag", 0), ("hole_surveys", 0), ("hole_remove_data", 0), ("hole_add_empty_channel", 0)],
        [("remove_child", 1), ("close_open", 0), ("remove_child_held", 1), ("remove_child", 1), ("remove_child_held", 1)],
        [("move_data", 0), ("move_data", 1), ("move_data_to_group", 0), ("move_object", 0), ("close_open", 0), ("move_data", 0)],
        [("pg_create", 0), ("pg_create_with_members", 0), ("pg_create", 0), ("close_open", 0), ("pg_create_with_members", 1), ("pg_create", 1)],
        [("values", 0), ("move_data", 0), ("pg_create", 0), ("move_object", 1), ("pg_create_with_members", 1)],
    ]

    def native_cases(self, tier, rng):
        for ops in self.FIXED:
            yield {"kind": "history", "ops": ops}
        # the same calls on a file without its Root link, and without the root group's node either
        for file in ("rootless", "rootless-no-root-group"):
            for ops in ([("rename", 0), ("rename", 1), ("set_values", 0), ("set_vertices", 1), ("add_data", 0)], [("get", 0), ("values", 0), ("rename", 2), ("remove", 0), ("pg_create", 1)]):  # (no type edits here: the type of a rebuilt root is a lead of DESIGN 10.7, not claimed)
                yield {"kind": "history", "ops": ops, "file": file}
        for _ in range(40 if tier == "quick" else 600):
            yield {"kind": "history", "ops": [(rng.choice(RO_OPS), rng.randint(0, 2)) for _ in range(rng.randint(3, 8))]}
        for rootless in (False, True):
            yield {"kind": "ui-json-loader", "rootless": rootless}
            yield {"kind": "monitoring-copy", "rootless": rootless}

    def native_check(self, case):
        d = tempfile.mkdtemp()
        try:
            if case["kind"] == "history":
                return self._history(d, {"ops": [tuple(o) for o in case["ops"]], "file": case.get("file")})
            return self._helper(d, case)
        except Exception as exc:
            import traceback

            return f"{type(exc).__name__}: {exc} during {case} | " + " <- ".join(f"{fr.name}:{fr.lineno}" for fr in traceback.extract_tb(exc.__traceback__)[-3:])
        finally:
            gc.collect()
            shutil.rmtree(d, ignore_errors=True)

    def _history(self, d, case):
        from geoh5py.objects import Points
        from geoh5py.shared.utils import fetch_active_workspace
        from geoh5py.workspace import Workspace

        path = os.path.join(d, "ro.geoh5")
        _project(path, holes=any(op.startswith("hole_") for op, _ in case["ops"]), rootless=case.get("file") == "rootless", no_root_group=case.get("file") == "rootless-no-root-group")
        before = _sha(path)
        other = Workspace.create(os.path.join(d, "other.geoh5"))
        ws = Workspace(path, mode="r")
        held = {}
        # what is in the file is known from the file (it never changes in this mode), not from flags the library keeps
        stored = {e.uid for e in list(ws.objects) + list(ws.groups) + list(ws.data)}
        try:
            for step, (op, a) in enumerate(case["ops"]):
                tag = f"step {step} ({op} {a})"
                wrote = None  # None: a read; otherwise True/False = the writing call went through / was refused
                try:
                    # only entities that are in the file: a creation or copy refused half-way may leave an
                    # in-memory entity behind, and editing that one does not have to write
                    objs = sorted([x for x in ws.objects if x.uid in stored], key=lambda x: x.name)
                    o = objs[a % len(objs)] if objs else None
                    if op == "get":
                        ws.get_entity("pts"), ws.list_entities_name
                    elif op == "values" and o is not None:
                        [np.asarray(c.values) for c in o.children if hasattr(c, "values")]
                    elif op == "children" and o is not None:
                        [c.name for c in o.children], o.vertices
                    elif op == "idle":
                        pass
                    elif op == "close_open":
                        ws.close()
                        ws.open()
                    elif op == "close_open_r":
                        ws.close()
                        ws.open(mode="r")
                    elif op == "fetch_active_r":
                        with fetch_active_workspace(ws, mode="r"):
                            pass
                    elif op == "copy_other" and o is not None:
                        o.copy(parent=other)
                    elif op.startswith("hole_"):
                        # a drillhole of a drillhole group: its data live in the group's concatenated storage
                        from geoh5py.groups import DrillholeGroup

                        grp = [g_ for g_ in ws.groups if isinstance(g_, DrillholeGroup)][0]
                        hole = [c for c in grp.children if c.name.startswith("H0")][0]
                        wrote = False
                        if op == "hole_add_data":
                            hole.add_data({f"log{step}": {"depth": np.array([1.0, 2.0]), "values": np.arange(2.0)}})
                        elif op == "hole_add_empty_channel":
                            # a channel without values that re-uses the type of a stored channel: nothing but the records to write
                            hole.add_data({f"empty{step}": {"values": None, "association": "OBJECT", "entity_type": hole.get_data("Au")[0].entity_type}})
                        elif op == "hole_rename":
                            hole.name = hole.name + "x"
                        elif op == "hole_values":
                            dat = hole.get_data("Au")[0]
                            dat.values = np.asarray(dat.values, dtype=float) + 1
                        elif op == "hole_data_flag":
                            dat = hole.get_data("Au")[0]
                            dat.allow_rename = not dat.allow_rename
                        elif op == "hole_surveys":
                            hole.surveys = np.c_[np.r_[0.0, 20.0], np.zeros(2), np.ones(2) * -80.0]
                        elif op == "hole_remove_data":
                            ws.remove_entity(hole.get_data("Au")[0])
                        else:
                            wrote = None
                        if wrote is False:
                            wrote = True
                    elif o is not None:
                        wrote = False
                        if op == "rename":
                            o.name = o.name + "x"
                        elif op == "set_values":
                            kids = [c for c in o.children if hasattr(c, "values") and c.uid in stored]
                            if kids:
                                kids[0].values = np.asarray(kids[0].values) + 1
                            else:
                                wrote = None
                        elif op == "set_vertices":
                            o.vertices = np.asarray(o.vertices) + 1.0
                        elif op == "create":
                            Points.create(ws, name="new", vertices=np.zeros((2, 3)))
                        elif op == "add_data":
                            o.add_data({"n": {"values": np.zeros(len(o.vertices))}})
                        elif op == "remove":
                            ws.remove_entity(o)
                        elif op in ("remove_child", "remove_child_held"):
                            # removal through the parent; "held": with a handle kept from an earlier call / session
                            # (a refused attempt may already have dropped the child from the in-memory list)
                            kid = held.get(o.name) if op == "remove_child_held" else None
                            if kid is None:
                                kids = [c for c in o.children if hasattr(c, "values") and c.uid in stored]
                                kid = kids[0] if kids else None
                            if kid is None:
                                wrote = None
                            else:
                                held[o.name] = kid
                                o.remove_children([kid])
                        elif op == "copy_same":
                            o.copy()
                        elif op in ("move_data", "move_data_to_group"):
                            # a stored data is given another parent (another stored object / a stored group or the root)
                            kids = [c for c in o.children if hasattr(c, "values") and c.uid in stored]
                            homes = [x for x in objs if x is not o] if op == "move_data" else [g for g in ws.groups if g.uid in stored]
                            if kids and homes:
                                kids[0].parent = homes[a % len(homes)]
                            else:
                                wrote = None
                        elif op == "move_object":
                            homes = [g for g in ws.groups if g.uid in stored and g is not o.parent]
                            if homes:
                                o.parent = homes[a % len(homes)]
                            else:
                                wrote = None
                        elif op in ("pg_create", "pg_create_with_members"):
                            # a property group that does not exist yet is created on a stored object
                            kids = [c for c in o.children if hasattr(c, "values") and c.uid in stored]
                            if op == "pg_create":
                                o.find_or_create_property_group(name=f"fresh-{step}")
                            elif kids:
                                o.create_property_group(name=f"fresh-{step}", properties=[kids[0].uid])
                            else:
                                wrote = None
                        elif op == "pg_add":
                            kids = [c for c in o.children if hasattr(c, "values") and c.uid in stored]
                            if kids:
                                o.add_data_to_group(kids[0], "pg2")
                            else:
                                wrote = None
                        elif op == "type_edit":
                            # every loaded entity type (the root's included) is stored: renaming it has to write
                            types = sorted(ws.types, key=lambda t: (t.name or "", str(t.uid)))
                            t = types[a % len(types)]
                            if t.on_file or True:
                                t.description = (t.description or "") + "x"
                        elif op == "root_type_edit":
                            ws.root.entity_type.name = "renamed root type"
                        elif op == "fetch_active_rw":
                            # a helper re-opening in a writable mode is the documented way to write;
                            # it must say so (close + re-open), not silently switch: excluded from the histories' claim
                            wrote = None
                        if wrote is False:
                            wrote = True
                except Exception:
                    pass
                if wrote is True:
                    return f"{tag}: a call that has to write to the file went through on a workspace opened read-only ({case})"
                now = _sha(path)
                if now != before:
                    return f"{tag}: the bytes of the file changed while the workspace was open read-only ({case})"
                try:
                    mode = ws.geoh5.mode
                except Exception:
                    mode = None
                if mode not in (None, "r"):
                    return f"{tag}: the handle of a workspace opened with mode 'r' now reports mode {mode!r} ({case})"
            ws.close()
            other.close()
            if _sha(path) != before:
                return f"closing the read-only workspace changed the file ({case})"
        finally:
            for w in (ws, other):
                try:
                    w.close()
                except Exception:
                    pass
        return None

    def _helper(self, d, case):
        from geoh5py.ui_json import InputFile
        from geoh5py.ui_json.constants import default_ui_json
        from geoh5py.workspace import Workspace

        path = os.path.join(d, "src.geoh5")
        _project(path, rootless=case["rootless"])
        before = _sha(path)
        if case["kind"] == "ui-json-loader":
            ui = deepcopy(default_ui_json)
            ui["title"] = "t"
            ui["geoh5"] = path
            uj = os.path.join(d, "t.ui.json")
            with open(uj, "w", encoding="utf-8") as fh:
                json.dump(InputFile.stringify(ui), fh)
            ifile = InputFile.read_ui_json(uj)
            if _sha(path) != before:
                return f"loading a ui.json that names the project altered the source file ({case})"
            ws = ifile.geoh5
            try:
                ws.open()
                mode = ws.geoh5.mode
                try:
                    ws.get_entity("pts")[0].name = "renamed"
                    ws.close()
                    return f"the workspace handed back by the ui.json loader re-opens writable (mode {mode!r}): a rename went through ({case})"
                except Exception:
                    pass
                ws.close()
            finally:
                try:
                    ws.close()
                except Exception:
                    pass
            if _sha(path) != before:
                return f"re-opening the workspace handed back by the ui.json loader altered the source file ({case})"
            return None
        # monitoring-directory export of an object of a read-only workspace
        from geoh5py.shared.utils import fetch_active_workspace
        from geoh5py.ui_json.utils import monitored_directory_copy

        mon = os.path.join(d, "monitor")
        os.makedirs(mon)
        with Workspace(path, mode="r") as ws:
            obj = ws.get_entity("pts")[0]
            monitored_directory_copy(mon, obj)
        if _sha(path) != before:
            return f"exporting a copy to a monitoring directory altered the source file ({case})"
        return None


# ------------------------------------------------------------------------------------------
# C11
# ------------------------------------------------------------------------------------------


class Boom(Exception):
    pass


def _DG():
    from geoh5py.groups import DrillholeGroup

    return DrillholeGroup  # the run-time class of a group is generated ("Concatenator" + name): test by isinstance


CL_OPS = ("points", "data", "rename", "values", "remove", "hole_data", "hole_rename", "hole_data_flags", "redundant_open", "fetch_active_r", "fetch_active_rw")


class CloseHistories(Contract):
    target = "geoh5py/workspace/workspace.py::Workspace.close"
    variant = "close-histories"
    symbolic = False
    has_native = True
    native_shards = 4
    props = ("C11",)
    bounded_scope = ("a project with plain objects and a drillhole group; 2-6 operations (create, add data, rename, edit values, remove, drillhole data, renames and data-flag edits whose persistence "
                     "is deferred to close, a chain group -> group -> points created with save_on_creation=False, a redundant open(), fetch_active_workspace in either mode) followed by one of {explicit close, leaving the with-block, an exception "
                     "escaping the with-block after k operations}; on disk and in an in-memory buffer saved with save_as: the file is valid, its re-opened tree equals the live tree "
                     "at the time of the close, the handle is released, a call needing the file raises the closed-file error, re-opening works; 24 fixed (five of them on a file whose Root link -- and for two also the root group's node -- was deleted, so that the session works on the rebuilt tree) + 30 seeded (quick) / 400")

    FIXED = [
        (["points", "data", "rename"], "close", "disk"),
        (["points", "data", "values"], "with", "disk"),
        (["points", "data", "rename", "remove"], "exception", "disk"),
        (["hole_data", "hole_rename"], "with", "disk"),
        (["hole_data", "hole_rename"], "exception", "disk"),
        (["redundant_open", "hole_rename", "hole_data"], "with", "disk"),
        (["hole_data", "redundant_open", "hole_rename"], "close", "disk"),
        (["fetch_active_r", "points", "rename"], "with", "disk"),
        (["fetch_active_rw", "points", "hole_rename"], "close", "disk"),
        (["hole_data", "hole_rename"], "close", "memory"),
        (["points", "data", "hole_data"], "with", "memory"),
        (["hole_rename", "points"], "close", "memory"),
        (["hole_data_flags"], "close", "disk"),
        (["hole_data_flags", "hole_data_flags"], "with", "disk"),
        (["hole_data_flags"], "exception", "disk"),
        (["rename", "values"], "close", "rootless"),
        (["points", "rename", "data"], "with", "rootless"),
        (["rename", "hole_rename"], "exception", "rootless"),
        (["rename", "values"], "close", "rootless-no-root-group"),
        (["points", "rename", "data", "hole_rename"], "with", "rootless-no-root-group"),
        (["deferred_chain", "rename"], "close", "disk"),
        (["points", "deferred_chain"], "with", "disk"),
        (["deferred_chain", "hole_rename"], "exception", "disk"),
        (["deferred_chain"], "close", "memory"),
    ]

    def native_cases(self, tier, rng):
        for ops, how, store in self.FIXED:
            yield {"ops": ops, "how": how, "store": store}
        for _ in range(30 if tier == "quick" else 400):
            yield {"ops": [rng.choice(CL_OPS) for _ in range(rng.randint(2, 6))], "how": rng.choice(["close", "with", "exception"]), "store": rng.choice(["disk", "disk", "memory"])}

    def native_check(self, case):
        d = tempfile.mkdtemp()
        try:
            return self._run(d, case)
        except Exception as exc:
            import traceback

            return f"{type(exc).__name__}: {exc} during {case} | " + " <- ".join(f"{fr.name}:{fr.lineno}" for fr in traceback.extract_tb(exc.__traceback__)[-3:])
        finally:
            gc.collect()
            shutil.rmtree(d, ignore_errors=True)

    @staticmethod
    def _snap(ws):
        snap = {k: v for k, v in tree_snapshot(ws).items() if not v["class"].startswith("Concatenated")}
        # concatenated holes load their children on demand, so they are described separately, by name:
        # names and their data values and flags (deferred persistence)
        for g in ws.groups:
            if isinstance(g, _DG()):
                for h in g.children:
                    # concatenated holes load their data on demand: ask by name
                    data = {}
                    for name in sorted(h.get_data_list()):
                        got = h.get_data(name)
                        if got and got[0].values is not None:
                            data[name] = (np.asarray(got[0].values).tolist(), bool(got[0].allow_rename), bool(got[0].public))
                    snap[f"hole:{h.uid}"] = {"name": h.name, "data": data}
        return snap

    def _run(self, d, case):
        from geoh5py.groups import DrillholeGroup
        from geoh5py.objects import Drillhole, Points
        from geoh5py.shared.exceptions import Geoh5FileClosedError
        from geoh5py.shared.utils import fetch_active_workspace
        from geoh5py.workspace import Workspace

        path = os.path.join(d, "c11.geoh5")
        memory = case["store"] == "memory"
        if memory:
            ws = Workspace()
        else:
            Workspace.create(path).close()
            ws = Workspace(path, mode="r+")
        grp = DrillholeGroup.create(ws, name="DH")
        for k in range(2):
            Drillhole.create(ws, name=f"H{k}", parent=grp, collar=np.r_[float(k), 0.0, 0.0], surveys=np.c_[np.r_[0.0, 10.0], np.zeros(2), np.ones(2) * -90.0])
        Points.create(ws, name="seed", vertices=np.arange(9.0).reshape(3, 3)).add_data({"v": {"values": np.arange(3.0)}})
        for h in grp.children:
            h.add_data({"base_log": {"depth": np.array([1.0, 2.0]), "values": np.arange(2.0)}})
        if not memory:
            ws.close()
            if case["store"] in ("rootless", "rootless-no-root-group"):
                # a file without its Root link (third-party or damaged): the tree is rebuilt from the flat containers;
                # second variant: the root group's own node is absent too, every stored entity is then top-level
                import h5py

                with h5py.File(path, "r+") as f:
                    proj = f[list(f)[0]]
                    rid = proj["Root"].attrs["ID"]
                    rid = rid.decode() if isinstance(rid, bytes) else str(rid)
                    del proj["Root"]
                    if case["store"] == "rootless-no-root-group":
                        del proj["Groups"][rid]
            ws = Workspace(path, mode="r+")
        count = [0]
        snap = [None]
        kept = []
        grp_box = [[g for g in ws.groups if isinstance(g, _DG())][0]]
        _ = [h.name for h in grp_box[0].children]  # the holes are loaded in this session

        def do(op):
            count[0] += 1
            k = count[0]
            objs = sorted([o for o in ws.objects if type(o).__name__ == "Points"], key=lambda o: o.name)
            holes = sorted([h for g in ws.groups if isinstance(g, _DG()) for h in g.children], key=lambda h: h.name)
            if not holes:
                raise RuntimeError("harness: no drillholes found in the session (vacuous hole operations)")
            if op == "points":
                Points.create(ws, name=f"P{k}", vertices=np.arange(6.0).reshape(2, 3) + k)
            elif op == "data" and objs:
                objs[0].add_data({f"d{k}": {"values": np.arange(len(objs[0].vertices), dtype=float) + k}})
            elif op == "rename" and objs:
                objs[-1].name = f"renamed{k}"
            elif op == "values" and objs:
                kids = [c for c in objs[0].children if hasattr(c, "values")]
                if kids:
                    kids[0].values = np.asarray(kids[0].values, dtype=float) + 1
            elif op == "remove" and len(objs) > 1:
                ws.remove_entity(objs[-1])
            elif op == "deferred_chain":
                # entities whose first save is left to the close, three levels below the root: group -> group -> points (-> data)
                from geoh5py.groups import ContainerGroup

                outer = ws.create_entity(ContainerGroup, save_on_creation=False, entity={"name": f"outer{k}"})
                inner = ws.create_entity(ContainerGroup, save_on_creation=False, entity={"name": f"inner{k}", "parent": outer})
                pts = ws.create_entity(Points, save_on_creation=False, entity={"name": f"deep{k}", "parent": inner, "vertices": np.arange(6.0).reshape(2, 3) + k})
                kept.append(pts)
            elif op == "hole_data" and holes:
                holes[k % len(holes)].add_data({f"log{k}": {"depth": np.array([1.0, 2.0, 3.0]), "values": np.arange(3.0) + 10 * k}})
            elif op == "hole_rename" and holes:
                holes[k % len(holes)].name = f"hole{k}"
            elif op == "hole_data_flags" and holes:
                # attribute edits of a stored drillhole data set (nothing else in the session need raise a flag)
                h = holes[k % len(holes)]
                names = [n for n in h.get_data_list() if n not in ("DEPTH", "FROM", "TO")]
                if names:
                    dat = h.get_data(sorted(names)[0])[0]
                    dat.allow_rename = not dat.allow_rename
                    dat.public = not dat.public
            elif op == "redundant_open":
                ws.open()
            elif op == "fetch_active_r":
                with fetch_active_workspace(ws, mode="r"):
                    pass
            elif op == "fetch_active_rw":
                with fetch_active_workspace(ws, mode="r+"):
                    pass
            kept.extend(objs[:1])
            snap[0] = self._snap(ws)

        how = case["how"]
        snap[0] = self._snap(ws)
        if how == "close":
            for op in case["ops"]:
                do(op)
            if memory:
                ws.save_as(path).close()
            ws.close()
        else:
            try:
                with ws:
                    for i, op in enumerate(case["ops"]):
                        do(op)
                        if how == "exception" and i == len(case["ops"]) - 1:
                            raise Boom()
                    if memory:
                        ws.save_as(path).close()
            except Boom:
                if memory:
                    return None  # nothing was exported before the exception; an in-memory buffer has no file to inspect
        # --- the handle is released and calls that need the file say so
        try:
            ws.geoh5
            return f"the handle is still open after the close ({case})"
        except Geoh5FileClosedError:
            pass
        except Exception as exc:
            return f"accessing the closed workspace raises {type(exc).__name__} instead of the closed-file error ({case})"
        try:
            ws.fetch_children(grp_box[0])
            return f"fetch_children on the drillhole group of the closed workspace answered from memory ({case})"
        except Geoh5FileClosedError:
            pass
        except Exception as exc:
            return f"fetch_children on the closed workspace raises {type(exc).__name__} instead of the closed-file error ({case})"
        if kept:
            try:
                kept[0].add_data({"late": {"values": np.zeros(len(kept[0].vertices))}})
                return f"adding data through an entity of the closed workspace did not raise ({case})"
            except Geoh5FileClosedError:
                pass
            except Exception as exc:
                return f"adding data through an entity of the closed workspace raises {type(exc).__name__} instead of the closed-file error ({case})"
        del kept[:]
        gc.collect()
        # --- the file is valid and holds every operation completed before the close
        bad = wf_file(path)
        if bad:
            return f"after the close the file is not valid: {bad} ({case})"
        with Workspace(path, mode="r") as back:
            got = self._snap(back)
        exp = snap[0]
        miss = diff_snap({k: v for k, v in exp.items() if not k.startswith("hole:")}, {k: v for k, v in got.items() if not k.startswith("hole:")})
        if miss:
            return f"re-opened file differs from the workspace at the time of the close: {miss} ({case})"
        for k, v in exp.items():
            if k.startswith("hole:") and got.get(k) != v:
                return f"drillhole {v['name']!r}: the file holds {got.get(k)} but the workspace held {v} when it was closed ({case})"
        # --- re-opening restores full access
        ws2 = Workspace(path, mode="r+")
        try:
            Points.create(ws2, name="after", vertices=np.zeros((2, 3)))
        finally:
            ws2.close()
        return None


CONTRACTS = [ReadOnlyHistories, CloseHistories]


class SaveAsNative(Contract):
    """save_as on a workspace that already lives on disk (or in memory): everything completed before
    the call -- write-through edits and those whose persistence waits for the close -- is in the old
    file and in the new one; the workspace then works on the new file only (what is done afterwards
    lands there and not in the old file), and closing it releases the handle."""
    target = "geoh5py/workspace/workspace.py::Workspace.save_as"
    variant = "save-as"
    symbolic = False
    has_native = True
    props = ("C11",)
    bounded_scope = "workspace {on disk, in memory} holding points with data and a drillhole group; before the call {nothing more, a rename, a drillhole rename + data-flag edit (deferred persistence)}; after the call a new object is created; both files re-opened and compared (exhaustive over the 6 combinations, plus a second save_as in a row)"

    def native_cases(self, tier, rng):
        for store in ("disk", "memory"):
            for before in ("nothing", "rename", "deferred"):
                yield {"store": store, "before": before, "twice": False}
        yield {"store": "disk", "before": "deferred", "twice": True}

    def native_check(self, case):
        from geoh5py.groups import DrillholeGroup
        from geoh5py.objects import Drillhole, Points
        from geoh5py.shared.exceptions import Geoh5FileClosedError
        from geoh5py.workspace import Workspace

        d = tempfile.mkdtemp()
        try:
            first, second, third = (os.path.join(d, n) for n in ("first.geoh5", "second.geoh5", "third.geoh5"))
            ws = Workspace() if case["store"] == "memory" else Workspace.create(first)
            p = Points.create(ws, name="pts", vertices=np.arange(9.0).reshape(3, 3))
            p.add_data({"v": {"values": np.arange(3.0)}})
            grp = DrillholeGroup.create(ws, name="DH")
            h = Drillhole.create(ws, name="H0", parent=grp, collar=np.r_[0.0, 0.0, 0.0], surveys=np.c_[np.r_[0.0, 10.0], np.zeros(2), np.ones(2) * -90.0])
            h.add_data({"log": {"depth": np.array([1.0, 2.0]), "values": np.arange(2.0)}})
            if case["store"] == "disk":
                del p, grp, h
                ws.close()
                ws = Workspace(first, mode="r+")
                p = ws.get_entity("pts")[0]
                h = [c for c in ws.get_entity("DH")[0].children][0]
            names = {"pts": "pts", "hole": "H0"}
            if case["before"] in ("rename", "deferred"):
                p.name = names["pts"] = "pts renamed"
            if case["before"] == "deferred":
                h.name = names["hole"] = "H0 renamed"
                dat = h.get_data("log")[0]
                dat.allow_rename = False
            del p, h
            out = ws.save_as(second)
            if case["twice"]:
                out = out.save_as(third)
                second_, last = second, third
            else:
                second_, last = None, second
            Points.create(out, name="after", vertices=np.zeros((2, 3)))
            out.close()
            try:
                out.geoh5
                return f"the handle is still open after closing the workspace returned by save_as ({case})"
            except Geoh5FileClosedError:
                pass

            def describe(path):
                with Workspace(path, mode="r") as w:
                    objs = sorted(o.name for o in w.objects)
                    holes = [c for g_ in w.groups if isinstance(g_, _DG()) for c in g_.children]
                    flags = [bool(c.get_data("log")[0].allow_rename) for c in holes]
                    return objs, flags

            want_before = sorted([names["pts"], names["hole"]])
            flag = [case["before"] != "deferred"]
            files = ([first] if case["store"] == "disk" else []) + ([second_] if second_ else [])
            for path in files:
                bad = wf_file(path)
                if bad:
                    return f"after save_as the file left behind is not valid: {bad} ({case})"
                got = describe(path)
                if got != (want_before, flag):
                    return f"the file left behind by save_as holds {got}, expected {(want_before, flag)}: what was done before the call is missing, or what was done after it landed there ({case})"
            bad = wf_file(last)
            if bad:
                return f"the file written by save_as is not valid: {bad} ({case})"
            got = describe(last)
            if got != (sorted(want_before + ["after"]), flag):
                return f"the file written by save_as holds {got}, expected {(sorted(want_before + ['after']), flag)} ({case})"
            return None
        finally:
            gc.collect()
            shutil.rmtree(d, ignore_errors=True)


CONTRACTS = CONTRACTS + [SaveAsNative]
