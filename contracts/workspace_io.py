"""C10 / C11: the single write guard, closing, and the helpers that (re-)open workspaces."""
from __future__ import annotations

import ast
import os

import z3

from pyvc import reflect
from pyvc.contracts import Contract
from pyvc.core import RaiseSig, fresh_name
from pyvc.interp import EngineCallable, WithBodyError
from pyvc.values import SV, AbsObj, Obj, Opaque, PList, mk, sym, to_z3, zbool


class ConcreteMode:
    """a concrete handle mode with the `.e` interface of a symbolic one"""

    def __init__(self, m):
        self.m = m
        self.e = to_z3(m)


def handle(ctx, state, concrete_mode=None):
    """h5py.File stand-in: `state` in {'open', 'closed'}; mode symbolic unless given."""
    if concrete_mode is not None:
        mode = ConcreteMode(concrete_mode)
        mode_val = concrete_mode
    else:
        mode = sym("handle_mode", "str")
        mode_val = mode
        ctx.assume(z3.Or(mode.e == to_z3("r"), mode.e == to_z3("r+"), mode.e == to_z3("a")))

    def close(I, a, kw):
        I.event("handle.close")
        h.attrs["__truth__"] = False
        return None

    h = AbsObj("h5file", {"mode": mode_val, "__truth__": state == "open"}, {"close": close})
    return h, mode


def ws_obj(ctx, state, concrete_mode=None):
    from geoh5py.workspace import Workspace

    if state == "never-opened":
        h, mode = None, None
    else:
        h, mode = handle(ctx, state, concrete_mode)
    me = Obj(Workspace, {"_geoh5": h, "_h5file": Opaque("path"), "_repack": False, "_root": Opaque("root"), "_groups": {}, "_mode": "r+"})
    ctx.env.update(me=me, h=h, mode=mode, state=state)
    return me


class IoCall(Contract):
    target = "geoh5py/workspace/workspace.py::Workspace._io_call"
    props = ("C10", "C11")
    lenient = True

    def cases(self):
        return [(s, m) for s in ("open", "closed", "never-opened") for m in ("r", "r+", "a")]

    def setup(self, ctx):
        state, req = ctx.case
        me = ws_obj(ctx, state)
        result = Opaque("fun-result")

        def fun(I, a, kw):
            I.event("fun-called", args=a, kw=kw)
            return result

        ctx.env.update(result=result, req=req)
        return [me, EngineCallable(fun, "fun"), Opaque("arg0")], {"mode": req}

    def _calls(self, ctx):
        return [p for k, p in ctx.path.events if k == "fun-called"]

    def post(self, ctx, result):
        e = ctx.env
        calls = self._calls(ctx)
        if e["state"] == "never-opened":
            ctx.oblige("nothing-is-called-before-the-first-open", len(calls) == 0 and result is None)
            return
        ctx.oblige("returns-only-with-an-open-handle", e["state"] == "open")
        ctx.oblige("the-function-runs-exactly-once-on-the-handle", len(calls) == 1 and calls[0]["args"][0] is e["h"] and result is e["result"])
        if e["req"] in ("r+", "a"):
            ctx.oblige("a-writing-function-never-runs-on-a-read-only-handle", e["mode"].e != to_z3("r"))

    def post_raises(self, ctx, sig):
        from geoh5py.shared.exceptions import Geoh5FileClosedError

        e = ctx.env
        calls = self._calls(ctx)
        ctx.oblige("a-refused-call-does-not-run-the-function", len(calls) == 0, kind="post-exc")
        if e["state"] == "closed":
            ctx.oblige("closed-workspace-raises-the-closed-file-error", sig.exc_class in (Geoh5FileClosedError, FileNotFoundError), kind="post-exc")
        elif e["state"] == "open":
            ctx.oblige("an-open-workspace-refuses-only-writes-in-read-only-mode", z3.And(sig.exc_class is UserWarning, e["req"] in ("r+", "a"), e["mode"].e == to_z3("r")), kind="post-exc")
        else:
            ctx.oblige("never-opened-workspace-does-not-raise", False, kind="post-exc")


class Geoh5Getter(Contract):
    target = "geoh5py/workspace/workspace.py::Workspace.geoh5.fget"
    props = ("C11",)

    def cases(self):
        return ["open", "closed", "never-opened"]

    def setup(self, ctx):
        return [ws_obj(ctx, ctx.case)], {}

    def post(self, ctx, result):
        ctx.oblige("the-handle-is-returned-only-while-open", ctx.case == "open" and result is ctx.env["h"])

    def post_raises(self, ctx, sig):
        from geoh5py.shared.exceptions import Geoh5FileClosedError

        ctx.oblige("closed-or-unopened-raises-the-closed-file-error", ctx.case != "open" and sig.exc_class is Geoh5FileClosedError, kind="post-exc")


def io_call_summary(ctx):
    """Call summary of Workspace._io_call (its contract is IoCall): records the call; raises
    UserWarning for a writing function on a read-only handle."""

    def io_call(I, a, kw):
        e = ctx.env
        req = kw.get("mode", "r")
        fn = a[0]
        name = getattr(getattr(fn, "func", fn), "__name__", repr(fn))
        if req in ("r+", "a") and e.get("mode") is not None:
            if I.path.branch(e["mode"].e == to_z3("r"), "handle-read-only"):
                I.event("io-refused", fun=name)
                raise RaiseSig(UserWarning, "Workspace._io_call")
        I.event("io", fun=name, mode=req, args=a[1:], kw={k: v for k, v in kw.items() if k != "mode"})
        return Opaque(f"{name}()")

    return EngineCallable(io_call, "_io_call")


class UpdateAttributeGuard(Contract):
    """Every stored-entity update goes through a writing _io_call, so a read-only workspace refuses it."""
    target = "geoh5py/workspace/workspace.py::Workspace.update_attribute"
    props = ("C10", "C03")
    lenient = True

    def cases(self):
        return ["plain", "concatenated", "channel"]

    def setup(self, ctx):
        from geoh5py.shared.concatenation.drillhole import ConcatenatedDrillhole
        from geoh5py.objects import Points

        me = ws_obj(ctx, "open")
        me.fields["_io_call"] = io_call_summary(ctx)
        if ctx.case == "concatenated":
            ent = Opaque("entity", cls=ConcatenatedDrillhole)
            conc = Opaque("concatenator")
            conc.attrs["update_attributes"] = Opaque("update_attributes")
            conc.attrs["update_attributes"].maybe_method = lambda I, a, kw: I.event("concatenator.update_attributes")
            ent.attrs["concatenator"] = conc
        else:
            ent = Opaque("entity", cls=Points)
        ent.attrs["on_file"] = True
        ctx.env["ent"] = ent
        return [me, ent, "attributes"], ({"channel": "Au"} if ctx.case == "channel" else {})

    def post(self, ctx, result):
        e = ctx.env
        ios = [p for k, p in ctx.path.events if k == "io"]
        ctx.oblige("a-stored-entity-is-updated-only-when-the-handle-is-writable", e["mode"].e != to_z3("r"))
        ctx.oblige("the-update-reaches-a-writer-function", any(p["mode"] in ("r+", "a") for p in ios) or ctx.case == "concatenated" and bool(ios))
        if ctx.case == "plain":
            ctx.oblige("plain-entities-go-through-update_field", any(p["fun"] == "update_field" and p["args"][0] is e["ent"] for p in ios))

    def post_raises(self, ctx, sig):
        ctx.oblige("refused-only-in-read-only-mode", z3.And(sig.exc_class is UserWarning, ctx.env["mode"].e == to_z3("r")), kind="post-exc")


class CloseContract(Contract):
    target = "geoh5py/workspace/workspace.py::Workspace.close"
    props = ("C11", "C09")
    lenient = True
    attr_overrides = {"groups": lambda I, o: PList([]), "repack": lambda I, o: False, "root": lambda I, o: o.fields["_root"]}
    trusted = ("the list of live groups is empty in this contract (the concatenated-attribute flush is C04's); repack off",)

    def cases(self):
        return ["open", "closed", "never-opened"]

    def setup(self, ctx):
        me = ws_obj(ctx, ctx.case)
        me.fields["_io_call"] = io_call_summary(ctx)
        return [me], {}

    def post(self, ctx, result):
        e = ctx.env
        ev = ctx.path.events
        closes = [i for i, (k, p) in enumerate(ev) if k == "handle.close"]
        saves = [i for i, (k, p) in enumerate(ev) if k == "io" and p["fun"] == "save_entity"]
        if ctx.case != "open":
            ctx.oblige("closing-a-closed-workspace-does-nothing", not closes and not saves)
            return
        ctx.oblige("the-handle-is-released-exactly-once", len(closes) == 1)
        writable = e["mode"].e != to_z3("r")
        ctx.oblige("a-writable-workspace-saves-the-whole-tree-before-releasing-the-handle",
                   z3.Implies(writable, len(saves) == 1 and bool(closes) and saves[0] < closes[0] and ev[saves[0]][1]["args"][0] is e["me"].fields["_root"] and ev[saves[0]][1]["kw"].get("add_children") is True))
        ctx.oblige("a-read-only-workspace-writes-nothing", z3.Implies(z3.Not(writable), not saves))


class CloseFlushes(Contract):
    """What close() owes to drillhole groups: when attribute records are pending (the repack flag
    is up) every concatenator group writes its attribute list before the final save -- whatever
    the workspace is stored in (a path or an in-memory buffer); an external repack is attempted
    for files on disk only."""
    target = "geoh5py/workspace/workspace.py::Workspace.close"
    variant = "pending-concatenated-attributes"
    props = ("C11", "C04")
    lenient = True

    def cases(self):
        return [(store, pending) for store in ("bytesio", "path") for pending in (True, False)]

    def setup(self, ctx):
        from io import BytesIO

        from contracts.concat import concatenator_class
        from geoh5py.groups import ContainerGroup

        store, pending = ctx.case
        me = ws_obj(ctx, "open", "r+")
        me.fields["_io_call"] = io_call_summary(ctx)
        conc = Opaque("drillhole-group", cls=concatenator_class())
        plain = Opaque("plain-group", cls=ContainerGroup)
        me.fields["_h5file"] = Opaque("buffer", cls=BytesIO) if store == "bytesio" else "/data/project.geoh5"
        me.fields["_repack"] = pending
        me.fields["update_attribute"] = EngineCallable(lambda I, a, kw: I.event("update_attribute", entity=a[0], what=a[1] if len(a) > 1 else None), "update_attribute")
        ctx.env.update(conc=conc, plain=plain)
        self._groups = PList([plain, conc])
        return [me], {}

    @property
    def attr_overrides(self):
        return {"groups": lambda I, o: self._groups, "repack": lambda I, o: o.fields["_repack"], "root": lambda I, o: o.fields["_root"]}

    def post(self, ctx, result):
        e = ctx.env
        store, pending = ctx.case
        ev = ctx.path.events
        flush = [i for i, (k, p) in enumerate(ev) if k == "update_attribute" and p["entity"] is e["conc"] and p["what"] == "concatenated_attributes"]
        saves = [i for i, (k, p) in enumerate(ev) if k == "io" and p["fun"] == "save_entity"]
        closes = [i for i, (k, p) in enumerate(ev) if k == "handle.close"]
        if pending:
            ctx.oblige("pending-attribute-records-are-written-before-the-final-save", len(flush) == 1 and bool(saves) and flush[0] < saves[0],
                       note=f"workspace stored in {store}: the drillhole group's attribute list is not flushed at close")
        ctx.oblige("the-whole-tree-is-saved-then-the-handle-released", len(saves) == 1 and len(closes) == 1 and saves[0] < closes[0])
        others = [p for k, p in ev if k == "update_attribute" and p["entity"] is not e["conc"]]
        ctx.oblige("plain-groups-are-not-rewritten-at-close", not others)


class FetchChildrenClosed(Contract):
    """After closing, asking for the children of any stored entity raises the closed-file error --
    also for a drillhole group whose holes were loaded during the session (no stale list)."""
    target = "geoh5py/workspace/workspace.py::Workspace.fetch_children"
    variant = "closed-workspace"
    props = ("C11",)
    lenient = True

    def cases(self):
        return ["points", "group", "drillhole-group-with-loaded-holes", "drillhole-group-without-holes"]

    def setup(self, ctx):
        from contracts.concat import concatenator_class
        from geoh5py.groups import ContainerGroup
        from geoh5py.objects import Points
        from geoh5py.shared.exceptions import Geoh5FileClosedError
        from geoh5py.workspace import Workspace

        me = Opaque("self", cls=Workspace)

        def io_call(I, a, kw):
            I.event("io")
            raise RaiseSig(Geoh5FileClosedError, "Workspace.geoh5")

        ioc = Opaque("_io_call")
        ioc.maybe_method = io_call
        me.attrs["_io_call"] = ioc
        cls = {"points": Points, "group": ContainerGroup}.get(ctx.case, None) or concatenator_class()
        ent = Opaque("entity", cls=cls)
        ent.attrs["uid"] = Opaque("uid")
        ent.attrs["on_file"] = True
        kids = PList([Opaque("hole-1"), Opaque("hole-2")]) if ctx.case == "drillhole-group-with-loaded-holes" else PList([])
        ent.attrs["children"] = kids
        ent.attrs["_children"] = kids
        return [me, ent], {}

    def post(self, ctx, result):
        ctx.oblige("a-closed-workspace-does-not-answer-from-memory", False, note="children were returned although the file is closed")

    def post_raises(self, ctx, sig):
        from geoh5py.shared.exceptions import Geoh5FileClosedError

        ctx.oblige("the-closed-file-error-is-raised", sig.exc_class is Geoh5FileClosedError, kind="post-exc")


class ExitContract(Contract):
    target = "geoh5py/workspace/workspace.py::Workspace.__exit__"
    props = ("C11",)
    lenient = True

    def cases(self):
        return ["normal-exit", "exception-escaping"]

    def setup(self, ctx):
        me = ws_obj(ctx, "open")
        me.fields["close"] = EngineCallable(lambda I, a, kw: I.event("close"), "close")
        exc = None if ctx.case == "normal-exit" else Opaque("exc_type")
        return [me, exc, exc, exc], {}

    def post(self, ctx, result):
        n = len([1 for k, p in ctx.path.events if k == "close"])
        ctx.oblige("the-workspace-is-closed-however-the-block-ended", n == 1)
        ctx.oblige("the-exception-is-not-swallowed", ctx.I.truth(result) is False or result is None)


class FetchActiveWorkspace(Contract):
    target = "geoh5py/shared/utils.py::fetch_active_workspace"
    props = ("C10", "C11")
    lenient = True

    def cases(self):
        return [(s, hm, m) for s in ("open", "closed") for hm in ("r", "r+", "a") for m in ("r", "r+")]

    def setup(self, ctx):
        state, hmode, req = ctx.case
        me = ws_obj(ctx, state, hmode)
        ctx.env["hmode"] = hmode

        def do_open(I, a, kw):
            I.event("open", mode=kw.get("mode", a[0] if a else None))
            me.fields["_geoh5"].attrs["__truth__"] = True
            return me

        def do_close(I, a, kw):
            I.event("close")
            me.fields["_geoh5"].attrs["__truth__"] = False
            return None

        me.fields["open"] = EngineCallable(do_open, "open")
        me.fields["close"] = EngineCallable(do_close, "close")
        ctx.env.update(req=req)
        return [me], {"mode": req}

    def _check(self, ctx, raised):
        e = ctx.env
        ev = ctx.path.events
        kinds = [k for k, p in ev]
        opens = [p for k, p in ev if k == "open"]
        yi = kinds.index("yield") if "yield" in kinds else None
        kind = "post-exc" if raised else "post"
        ctx.oblige("the-block-runs-exactly-once", kinds.count("yield") == 1, kind=kind)
        if yi is None:
            return
        if not opens:
            # handed over as is: only legitimate when it is already open in a mode that grants the
            # requested access ('r' is granted by 'r', 'r+' and 'a' handles; 'r+' only by 'r+')
            grants = e["state"] == "open" and (e["hmode"] == e["req"] or (e["req"] == "r" and e["hmode"] in ("r+",)))
            ctx.oblige("not-re-opened-only-if-already-open-in-the-requested-mode", grants, kind=kind)
            ctx.oblige("a-workspace-the-helper-did-not-open-is-left-open", "close" not in kinds, kind=kind)
        else:
            ctx.oblige("re-opened-in-exactly-the-requested-mode", len(opens) == 1 and opens[0]["mode"] == e["req"], kind=kind)
            after = kinds[yi + 1:]
            ctx.oblige("a-workspace-the-helper-opened-is-closed-again-whatever-the-block-did", "close" in after, kind=kind)

    def post(self, ctx, result):
        self._check(ctx, False)

    def post_raises(self, ctx, sig):
        ctx.oblige("only-the-blocks-own-exception-propagates", sig.exc_class is WithBodyError, kind="post-exc")
        self._check(ctx, True)


# -------------------------------------------------------------------------------------------
# structural obligation: every use of an H5Writer function outside the writer goes through
# Workspace._io_call(..., mode="r+"); h5py.File is opened only in the known places
# -------------------------------------------------------------------------------------------

ALLOWED_DIRECT = {("geoh5py/workspace/workspace.py", "init_geoh5")}  # fresh in-memory file in h5file.fset


def structural_scan(tier, seed):
    root = os.path.join(reflect.REPO, "geoh5py")
    names_ok, violations, samples = [], [], []
    n = 0
    for dirpath, _, files in os.walk(root):
        for fn in files:
            if not fn.endswith(".py"):
                continue
            path = os.path.join(dirpath, fn)
            rel = os.path.relpath(path, reflect.REPO)
            tree = reflect.parse_file(path)
            for node in ast.walk(tree):
                if isinstance(node, ast.Attribute) and isinstance(node.value, ast.Name) and node.value.id == "H5Writer" and rel != "geoh5py/io/h5_writer.py":
                    n += 1
                    parent = getattr(node, "_parent", None)
                    ok = False
                    if isinstance(parent, ast.Call) and parent.args and parent.args[0] is node and isinstance(parent.func, ast.Attribute) and parent.func.attr == "_io_call":
                        modes = [kw.value.value for kw in parent.keywords if kw.arg == "mode" and isinstance(kw.value, ast.Constant)]
                        ok = modes == ["r+"] or modes == ["a"]
                    if (rel, node.attr) in ALLOWED_DIRECT:
                        ok = True
                    name = f"structure/H5Writer.{node.attr}@{rel}:{_enclosing(node)}"
                    if ok:
                        names_ok.append(name)
                    else:
                        violations.append({"contract": "structure", "case": "scan", "obligation": name, "verdict": "refuted", "how": "no-failing-input-found", "closed_path": True,
                                           "note": f"H5Writer.{node.attr} is used at {rel}:{node.lineno} without Workspace._io_call(..., mode='r+')", "replay_detail": f"{rel}:{node.lineno}"})
                if isinstance(node, ast.Call) and isinstance(node.func, ast.Attribute) and node.func.attr == "File" and isinstance(node.func.value, ast.Name) and node.func.value.id == "h5py":
                    n += 1
                    name = f"structure/h5py.File@{rel}:{_enclosing(node)}"
                    if rel in ("geoh5py/workspace/workspace.py", "geoh5py/shared/utils.py", "geoh5py/io/h5_writer.py"):
                        names_ok.append(name)
                    else:
                        violations.append({"contract": "structure", "case": "scan", "obligation": name, "verdict": "refuted", "how": "no-failing-input-found", "closed_path": True,
                                           "note": f"h5py.File opened outside the audited modules at {rel}:{node.lineno}", "replay_detail": f"{rel}:{node.lineno}"})
    return {"name": "structural_scan", "obligations": n, "discharged": len(names_ok), "names_ok": names_ok, "violations": violations,
            "samples": [{"obligation": x, "verdict": "discharged", "backend": "AST scan"} for x in names_ok[:2]]}


def _enclosing(node):
    cur = node
    while cur is not None and not isinstance(cur, (ast.FunctionDef, ast.AsyncFunctionDef)):
        cur = getattr(cur, "_parent", None)
    return cur.name if cur is not None else "<module>"


CONTRACTS = [IoCall, Geoh5Getter, UpdateAttributeGuard, CloseContract, CloseFlushes, FetchChildrenClosed, ExitContract, FetchActiveWorkspace]
