"""Contracts for geoh5py/ui_json/utils.py — the required/optional/enabled/dependency/group
decision (C15 exactness), over *arbitrary* ui.json dictionaries."""
from __future__ import annotations

import itertools

import z3

from pyvc import theory
from pyvc.contracts import Contract, LoopSpec
from pyvc.core import Unsupported, fresh_name
from pyvc.values import SV, DynV, Maybe, SDict, SList, dyn_from, dyn_sort, mk, sym, to_z3, zbool

D = dyn_sort


class UiState:
    """Symbolic ui.json: name -> (dict with members | scalar)."""

    def __init__(self, ctx, tag="ui"):
        I = z3.IntSort()
        self.UHas = z3.Function(fresh_name(tag + "_has"), I, z3.BoolSort())
        self.IsDict = z3.Function(fresh_name(tag + "_isdict"), I, z3.BoolSort())
        self.FHas = z3.Function(fresh_name(tag + "_fhas"), I, I, z3.BoolSort())
        self._FGet = z3.Function(fresh_name(tag + "_fget"), I, I, D())
        self._FB = z3.Function(fresh_name(tag + "_fbool"), I, I, z3.BoolSort())
        self._FS = z3.Function(fresh_name(tag + "_fstr"), I, I, I)
        self.UVal = z3.Function(fresh_name(tag + "_val"), I, D())
        self.tag = tag

    def FGet(self, p, m):
        """Member value.  The switch members have the types the format gives them (typed by
        construction: this is the well-typedness precondition of every contract here)."""
        d = D()
        is_b = z3.Or(*[m == A(x) for x in BOOL_MEMBERS])
        is_s = z3.Or(*[m == A(x) for x in STR_MEMBERS])
        return z3.simplify(z3.If(is_b, d.b(self._FB(p, m)), z3.If(is_s, d.s(self._FS(p, m)), self._FGet(p, m))))

    def entry(self, p):
        return UiEntry(self, to_z3(p))

    def as_dict(self, ctx, has=None, tag=None):
        has = has or (lambda k: self.UHas(to_z3(k)))
        d = SDict("str", has, lambda k: self.entry(k), tag=tag or self.tag)
        return d


class UiEntry(SDict):
    def __init__(self, U, p):
        self.U = U
        self.p = p
        SDict.__init__(self, "str", lambda m: U.FHas(p, to_z3(m)), lambda m: DynV(U.FGet(p, to_z3(m))), tag="form")

    def sym_isinstance(self, I, classes):
        if dict in classes:
            return mk(self.U.IsDict(self.p), "bool")
        raise Unsupported("isinstance of a ui.json entry against a non-dict class")

    def guard(self, I):
        # dict operations are only meaningful on dict entries
        if not I.path.branch(self.U.IsDict(self.p), f"ui-entry-is-dict@{I.cur_line}"):
            raise Unsupported("dict operation reached on a non-dict ui.json entry")


A = lambda s: to_z3(s)  # atom code of a literal string
BOOL_MEMBERS = ("enabled", "optional", "groupOptional")
STR_MEMBERS = ("group", "dependency", "dependencyType")


def is_form_z(U, p):
    return z3.And(U.IsDict(p), U.FHas(p, A("label")), U.FHas(p, A("value")))


def truthy(e):
    """Python truthiness of a PyV term."""
    d = D()
    return z3.If(d.is_none(e), False, z3.If(d.is_b(e), d.bval(e), z3.If(d.is_i(e), d.ival(e) != 0, z3.If(d.is_r(e), d.rval(e) != 0, z3.If(d.is_s(e), d.sval(e) != A(""), True)))))


def member_bool(U, p, m):
    return z3.Implies(U.FHas(p, A(m)), D().is_b(U.FGet(p, A(m))))


def member_str(U, p, m):
    return z3.Implies(U.FHas(p, A(m)), D().is_s(U.FGet(p, A(m))))


def well_typed(U, p):
    """Types the format gives to the switch members of a form."""
    return z3.And(
        member_bool(U, p, "enabled"), member_bool(U, p, "optional"), member_bool(U, p, "groupOptional"),
        member_str(U, p, "group"), member_str(U, p, "dependency"), member_str(U, p, "dependencyType"),
    )


def get_default(U, p, m, default):
    """form.get(m, default) as a PyV term."""
    return z3.If(U.FHas(p, A(m)), U.FGet(p, A(m)), dyn_from(default))


# ---- specification (from docs/content/uijson_format/json_objects.rst and the C15 statement):
# the group switch sits above the dependency switch, which sits above the optional switch.


def spec_optional(U, p):
    return truthy(get_default(U, p, "enabled", True))


def spec_dependency(U, p):
    d = D()
    dep = d.sval(U.FGet(p, A("dependency")))
    dep_optional = truthy(get_default(U, dep, "optional", False))
    on = z3.If(dep_optional, truthy(get_default(U, dep, "enabled", True)), truthy(get_default(U, dep, "value", True)))
    dtype_enabled = z3.Or(z3.Not(U.FHas(p, A("dependencyType"))), U.FGet(p, A("dependencyType")) == dyn_from("enabled"))
    act = z3.If(dtype_enabled, on, z3.Not(on))
    return z3.If(z3.And(act, U.FHas(p, A("optional"))), truthy(U.FGet(p, A("enabled"))), act)


def in_group(U, x, g):
    return z3.And(U.UHas(x), is_form_z(U, x), U.FHas(x, A("group")), U.FGet(x, A("group")) == g)


def spec_requires(U, p, carrier):
    """carrier: the (unique, if any) groupOptional carrier of p's group; has_carrier Bool."""
    has_carrier, c = carrier
    grp_on = z3.If(has_carrier, z3.If(truthy(U.FGet(c, A("groupOptional"))), truthy(get_default(U, c, "enabled", True)), True), True)
    lower = z3.If(U.FHas(p, A("dependency")), spec_dependency(U, p), z3.If(U.FHas(p, A("optional")), spec_optional(U, p), True))
    return z3.If(
        z3.Not(is_form_z(U, p)),
        True,
        z3.If(U.FHas(p, A("group")), z3.If(grp_on, lower, False), lower),
    )


# -------------------------------------------------------------------------------------------


class IsForm(Contract):
    target = "geoh5py/ui_json/utils.py::is_form"
    props = ("C15", "C14")

    def setup(self, ctx):
        U = UiState(ctx)
        p = sym("p", "str")
        ctx.env.update(U=U, p=p)
        return [U.entry(p)], {}

    def post(self, ctx, result):
        U, p = ctx.env["U"], ctx.env["p"]
        ctx.oblige("is_form-iff-dict-with-label-and-value", zbool(ctx.I.truth(result)) == is_form_z(U, p.e))

    def apply(self, I, args, kwargs):
        v = args[0]
        if isinstance(v, UiEntry):
            return mk(is_form_z(v.U, v.p), "bool")
        raise Unsupported("is_form summary on a non-ui value")


def _collect_sel(ctx, x):
    e = ctx.env
    U = e["U"]
    has_member = U.FHas(x, e["member"].e)
    val_ok = True if e["value"] is None else (U.FGet(x, e["member"].e) == dyn_from(e["value"]))
    return z3.And(U.UHas(x), is_form_z(U, x), has_member, val_ok)


def _collect_inv(ctx, st, k):
    e = ctx.env
    params = st["parameters"]
    n, key_at, idx = e["ui"].enum
    x = z3.Int(fresh_name("x"))
    has = params.has(mk(x, "str")) if isinstance(params, SDict) else ctx.I.contains(params, mk(x, "str"))
    goal = z3.ForAll([x], zbool(has) == z3.And(_collect_sel(ctx, x), idx(x) < k))
    return [("collected-exactly-matching-prefix", goal)]


def _collect_havoc(ctx, st, k):
    from pyvc.values import PDict, promote_dict

    params = st["parameters"]
    if isinstance(params, PDict):
        promote_dict(params, "str")
    U = ctx.env["U"]
    h2 = z3.Function(fresh_name("params_has"), z3.IntSort(), z3.BoolSort())
    params.has = lambda kk, _h=h2: _h(to_z3(kk))
    params.get = lambda kk: U.entry(kk)  # values are the forms of ui_json themselves
    params.n = None
    params.key_at = None


class Collect(Contract):
    target = "geoh5py/ui_json/utils.py::collect"
    props = ("C15", "C14")
    loops = {1: LoopSpec(_collect_inv, _collect_havoc, "for-name-form")}
    has_native = True
    bounded_scope = "ui dicts with <= 3 entries drawn from 6 entry shapes, member in {group, groupOptional}, value in {None, 'g'} (exhaustive)"

    def cases(self):
        return ["value-none", "value-str"]

    def setup(self, ctx):
        U = UiState(ctx)
        ui = U.as_dict(ctx)
        ui.ensure_enum(ctx.path)
        member = sym("member", "str")
        value = None if ctx.case == "value-none" else sym("value", "str")
        ctx.env.update(U=U, ui=ui, member=member, value=value)
        return [ui, member, value], {}

    def post(self, ctx, result):
        x = z3.Int(fresh_name("x"))
        ctx.oblige("result-keys-exactly-the-matching-forms", zbool(result.has(mk(x, "str"))) == _collect_sel(ctx, x))
        ent = result.get(mk(x, "str"))
        ctx.oblige("result-values-are-the-forms-themselves", isinstance(ent, UiEntry) and ent.p.eq(x) and ent.U is ctx.env["U"])

    def apply(self, I, args, kwargs):
        ui = args[0]
        member = args[1]
        value = args[2] if len(args) > 2 else kwargs.get("value")
        U = getattr(ui, "U_state", None)
        if U is None:
            raise Unsupported("collect summary on a non-symbolic ui")
        base_has = ui.has
        mz = to_z3(member)

        def has(k, _b=base_has):
            x = to_z3(k)
            ok = z3.And(zbool(_b(k)), is_form_z(U, x), U.FHas(x, mz))
            if value is not None:
                ok = z3.And(ok, U.FGet(x, mz) == dyn_from(value))
            return ok

        out = SDict("str", has, lambda k: U.entry(k), tag="collected")
        out.U_state = U
        return out

    # native --------------------------------------------------------------------------
    def native_cases(self, tier, rng):
        shapes = [
            1, "g",
            {"label": "l", "value": 1},
            {"label": "l", "value": 1, "group": "g"},
            {"label": "l", "value": 1, "group": "h", "groupOptional": True},
            {"value": 1, "group": "g"},
        ]
        for n in range(0, 4):
            for combo in itertools.product(range(len(shapes)), repeat=n):
                for member, value in (("group", None), ("group", "g"), ("groupOptional", None)):
                    yield {"ui": {f"p{i}": shapes[c] for i, c in enumerate(combo)}, "member": member, "value": value}

    def native_check(self, case):
        from geoh5py.ui_json import utils

        ui = case["ui"]
        got = utils.collect(ui, case["member"], case["value"])
        exp = {}
        for k, v in ui.items():
            if isinstance(v, dict) and "label" in v and "value" in v and case["member"] in v:
                if case["value"] is None or v[case["member"]] == case["value"]:
                    exp[k] = v
        if list(got.keys()) != list(exp.keys()):
            return f"keys {list(got)} expected {list(exp)}"
        if any(got[k] is not ui[k] for k in got):
            return "values are not the forms themselves"
        return None


def make_ui(ctx):
    U = UiState(ctx)
    ui = U.as_dict(ctx)
    ui.U_state = U
    return U, ui


class _SwitchBase(Contract):
    props = ("C15",)
    uses = (Collect, IsForm)
    has_native = True
    bounded_scope = "every combination of the switch members over a 3-parameter ui (parameter, dependency, group carrier): exhaustive enumeration, see native_cases"

    def common_pre(self, ctx, U, p):
        ctx.assume(U.UHas(p.e))


class OptionalRequiresValue(_SwitchBase):
    target = "geoh5py/ui_json/utils.py::optional_requires_value"

    def setup(self, ctx):
        U, ui = make_ui(ctx)
        p = sym("p", "str")
        self.common_pre(ctx, U, p)
        ctx.assume(is_form_z(U, p.e))
        ctx.env.update(U=U, p=p)
        return [ui, p], {}

    def post(self, ctx, result):
        U, p = ctx.env["U"], ctx.env["p"]
        ctx.oblige("enabled-default-true", zbool(ctx.I.truth(result)) == spec_optional(U, p.e))

    def native_cases(self, tier, rng):
        for en in (None, True, False):
            f = {"label": "l", "value": 1, "optional": True}
            if en is not None:
                f["enabled"] = en
            yield {"ui": {"p": f}, "p": "p", "exp": True if en is None else en}

    def native_check(self, case):
        from geoh5py.ui_json import utils

        got = utils.optional_requires_value(case["ui"], case["p"])
        return None if bool(got) == case["exp"] else f"got {got} expected {case['exp']}"


def _dep_pre(ctx, U, p):
    d = D()
    ctx.assume(U.FHas(p.e, A("dependency")))
    dep = d.sval(U.FGet(p.e, A("dependency")))
    # the dependency names an existing form (format requirement)
    ctx.assume(z3.And(U.UHas(dep), U.IsDict(dep)))
    # its driving member is a boolean switch (docs: the driver is a bool parameter or optional)
    ctx.assume(z3.Implies(U.FHas(dep, A("value")), z3.Or(truthy(get_default(U, dep, "optional", False)), d.is_b(U.FGet(dep, A("value"))))))
    # an 'optional' form carries its 'enabled' switch
    ctx.assume(z3.Implies(U.FHas(p.e, A("optional")), U.FHas(p.e, A("enabled"))))


class DependencyRequiresValue(_SwitchBase):
    target = "geoh5py/ui_json/utils.py::dependency_requires_value"

    def setup(self, ctx):
        U, ui = make_ui(ctx)
        p = sym("p", "str")
        self.common_pre(ctx, U, p)
        ctx.assume(is_form_z(U, p.e))
        _dep_pre(ctx, U, p)
        ctx.env.update(U=U, p=p)
        return [ui, p], {}

    def post(self, ctx, result):
        U, p = ctx.env["U"], ctx.env["p"]
        ctx.oblige("dependency-switch-table", zbool(ctx.I.truth(result)) == spec_dependency(U, p.e))

    def native_cases(self, tier, rng):
        for case in _switch_cases():
            if "dependency" in case["ui"]["p"]:
                yield case

    def native_check(self, case):
        from geoh5py.ui_json import utils

        got = utils.dependency_requires_value(case["ui"], "p")
        exp = _oracle_dependency(case["ui"], "p")
        return None if bool(got) == exp else f"got {got!r} expected {exp} for {case['ui']}"


def _carrier(ctx, U, p):
    """The groupOptional carrier of p's group, if any; precondition: at most one per group."""
    d = D()
    g = U.FGet(p.e, A("group"))
    c = z3.Int(fresh_name("carrier"))
    hasc = z3.Bool(fresh_name("has_carrier"))
    x = z3.Int(fresh_name("x"))
    is_car = lambda y: z3.And(in_group(U, y, g), U.FHas(y, A("groupOptional")))
    ctx.assume(z3.Implies(hasc, is_car(c)))
    ctx.assume(z3.ForAll([x], z3.Implies(is_car(x), z3.And(hasc, x == c))))
    return hasc, c


class GroupRequiresValue(_SwitchBase):
    target = "geoh5py/ui_json/utils.py::group_requires_value"

    def setup(self, ctx):
        U, ui = make_ui(ctx)
        p = sym("p", "str")
        self.common_pre(ctx, U, p)
        ctx.assume(z3.And(is_form_z(U, p.e), U.FHas(p.e, A("group"))))
        car = _carrier(ctx, U, p)
        ctx.env.update(U=U, p=p, car=car)
        return [ui, p], {}

    def post(self, ctx, result):
        U, p = ctx.env["U"], ctx.env["p"]
        hasc, c = ctx.env["car"]
        exp = z3.If(hasc, z3.If(truthy(U.FGet(c, A("groupOptional"))), truthy(get_default(U, c, "enabled", True)), True), True)
        ctx.oblige("group-switch-table", zbool(ctx.I.truth(result)) == exp)

    def native_cases(self, tier, rng):
        for case in _switch_cases():
            if "group" in case["ui"]["p"]:
                yield case

    def native_check(self, case):
        from geoh5py.ui_json import utils

        got = utils.group_requires_value(case["ui"], "p")
        exp = _oracle_group(case["ui"], "p")
        return None if bool(got) == exp else f"got {got!r} expected {exp} for {case['ui']}"


class RequiresValue(_SwitchBase):
    target = "geoh5py/ui_json/utils.py::requires_value"

    def cases(self):
        return ["form", "any"]

    def setup(self, ctx):
        U, ui = make_ui(ctx)
        p = sym("p", "str")
        self.common_pre(ctx, U, p)
        d = D()
        # preconditions of the lower switches apply when they are consulted
        dep = d.sval(U.FGet(p.e, A("dependency")))
        ctx.assume(z3.Implies(z3.And(is_form_z(U, p.e), U.FHas(p.e, A("dependency"))), z3.And(U.UHas(dep), U.IsDict(dep),
                   z3.Implies(U.FHas(dep, A("value")), z3.Or(truthy(get_default(U, dep, "optional", False)), d.is_b(U.FGet(dep, A("value"))))))))
        ctx.assume(z3.Implies(U.FHas(p.e, A("optional")), U.FHas(p.e, A("enabled"))))
        car = _carrier(ctx, U, p)
        ctx.env.update(U=U, p=p, car=car)
        return [ui, p], {}

    def post(self, ctx, result):
        U, p = ctx.env["U"], ctx.env["p"]
        ctx.oblige("required-iff-switch-hierarchy-says-so", zbool(ctx.I.truth(result)) == spec_requires(U, p.e, ctx.env["car"]))

    def native_cases(self, tier, rng):
        yield from _switch_cases()

    def native_check(self, case):
        from geoh5py.ui_json import utils

        got = utils.requires_value(case["ui"], "p")
        exp = _oracle_requires(case["ui"], "p")
        return None if bool(got) == exp else f"got {got!r} expected {exp} for {case['ui']}"


# ---- native oracle (written from the documentation, independent of the code) ----------------


def _oracle_dependency(ui, p):
    form = ui[p]
    dep = ui[form["dependency"]]
    on = dep.get("enabled", True) if dep.get("optional", False) else dep.get("value", True)
    act = bool(on) if form.get("dependencyType", "enabled") == "enabled" else (not on)
    if act and "optional" in form:
        return bool(form["enabled"])
    return act


def _oracle_group(ui, p):
    g = ui[p]["group"]
    carriers = [f for f in ui.values() if isinstance(f, dict) and "label" in f and "value" in f and f.get("group") == g and "groupOptional" in f]
    if carriers and carriers[0]["groupOptional"]:
        return bool(carriers[0].get("enabled", True))
    return True


def _oracle_requires(ui, p):
    form = ui[p]
    if not (isinstance(form, dict) and "label" in form and "value" in form):
        return True
    if "group" in form and not _oracle_group(ui, p):
        return False
    if "dependency" in form:
        return _oracle_dependency(ui, p)
    if "optional" in form:
        return bool(form.get("enabled", True))
    return True


def _switch_cases():
    """Every combination of the switches over (parameter p, dependency d, group carrier c)."""
    opt3 = (None, True, False)
    for p_opt, p_en, has_dep, dtype, d_opt, d_en, d_val, has_grp, c_go, c_en in itertools.product(
        opt3, (True, False), (False, True), (None, "enabled", "disabled"), opt3, opt3, (True, False), (False, True), opt3, opt3
    ):
        if not has_dep and (dtype is not None or d_opt is not None or d_en is not None or d_val is not True):
            continue
        if not has_grp and (c_go is not None or c_en is not None):
            continue
        p = {"label": "p", "value": 1}
        if p_opt is not None:
            p["optional"] = p_opt
            p["enabled"] = p_en
        elif not p_en:
            continue
        ui = {"p": p}
        if has_dep:
            p["dependency"] = "d"
            if dtype is not None:
                p["dependencyType"] = dtype
            d = {"label": "d", "value": d_val}
            if d_opt is not None:
                d["optional"] = d_opt
            if d_en is not None:
                d["enabled"] = d_en
            ui["d"] = d
        if has_grp:
            p["group"] = "g"
            c = {"label": "c", "value": 1, "group": "g"}
            if c_go is not None:
                c["groupOptional"] = c_go
            if c_en is not None:
                c["enabled"] = c_en
            ui["c"] = c
        yield {"ui": ui}


CONTRACTS = [IsForm, Collect, OptionalRequiresValue, DependencyRequiresValue, GroupRequiresValue, RequiresValue]
