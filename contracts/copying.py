"""C12: a copy equals its source and never disturbs it."""
from __future__ import annotations

import hashlib
import itertools
import os
import shutil
import tempfile

import numpy as np
import z3

from pyvc.contracts import Contract
from pyvc.core import fresh_name
from pyvc.interp import EngineCallable
from pyvc.values import AbsObj, Obj, Opaque, PDict, PList, SDict, SList, SV, mk, sym, to_z3, zbool


class CopyPropertyGroups(Contract):
    target = "geoh5py/workspace/workspace.py::Workspace.copy_property_groups"
    props = ("C12", "C06")

    def cases(self):
        return ["uid-free", "uid-taken"]

    def setup(self, ctx):
        from geoh5py.workspace import Workspace

        n = ctx.int("n_properties", 0)
        props_f = z3.Function(fresh_name("props"), z3.IntSort(), z3.IntSort())
        map_f = z3.Function(fresh_name("map"), z3.IntSort(), z3.IntSort())
        props = SList(n, lambda i: mk(props_f(to_z3(i, "int")), "uid"), "properties")
        # the callers build the map over every copied child, and groups only list children
        data_map = SDict("uid", lambda k: z3.BoolVal(True), lambda k: mk(map_f(to_z3(k)), "uid"), tag="data_map")
        pg_uid = sym("pg_uid", "uid")
        pg = AbsObj("pg", {"properties": props, "association": Opaque("assoc"), "name": sym("pg_name", "str"), "property_group_type": sym("pg_type", "str"), "uid": pg_uid})
        found = None if ctx.case == "uid-free" else Opaque("existing-group")
        ws = AbsObj("target-workspace", {}, {"find_property_group": lambda I, a, kw: (I.event("lookup", uid=a[0]), found)[1]})

        def focpg(I, a, kw):
            I.event("create_group", kw=kw)
            return Opaque("new-group")

        entity = AbsObj("new-object", {"workspace": ws}, {"find_or_create_property_group": focpg})
        ctx.env.update(n=n, props_f=props_f, map_f=map_f, pg=pg, pg_uid=pg_uid)
        return [Workspace, entity, PList([pg]), data_map], {}

    def post(self, ctx, result):
        e = ctx.env
        creates = [p["kw"] for k, p in ctx.path.events if k == "create_group"]
        ok = len(creates) == 1
        ctx.oblige("one-group-created-per-source-group", ok)
        if not ok:
            return
        kw = creates[0]
        newp = kw.get("properties")
        okp = isinstance(newp, SList)
        ctx.oblige("copied-group-has-a-member-list", okp)
        if okp:
            i = z3.Int(fresh_name("i"))
            ctx.oblige("same-number-of-members", to_z3(newp.length, "int") == e["n"].e)
            ctx.oblige("members-are-the-copied-children-in-the-source-order", z3.Implies(z3.And(i >= 0, i < e["n"].e), to_z3(newp.elem(i)) == e["map_f"](e["props_f"](i))))
        ctx.oblige("name-type-and-association-are-kept", kw.get("name") is e["pg"].attrs["name"] and kw.get("property_group_type") is e["pg"].attrs["property_group_type"] and kw.get("association") is e["pg"].attrs["association"])
        if ctx.case == "uid-free":
            ctx.oblige("identifier-kept-when-free-in-the-target", kw.get("uid") is e["pg_uid"])
        else:
            ctx.oblige("identifier-not-reused-when-taken-in-the-target", "uid" not in kw)
        looks = [p for k, p in ctx.path.events if k == "lookup"]
        ctx.oblige("freedom-is-decided-by-a-live-lookup-of-the-group-identifier", len(looks) == 1 and looks[0]["uid"] is e["pg_uid"])


class CopyPropertyGroupsSkippedMember(Contract):
    """The same function when the map of copied children is partial (classes rebuild some children on
    the copy instead of copying them: those are not keys of the map): a group listing such a member is
    refused (KeyError, nothing created); a group is never written with a member under some other
    identifier -- the copied group would name data that are not children of the copy."""
    target = "geoh5py/workspace/workspace.py::Workspace.copy_property_groups"
    variant = "member-without-a-copy"
    props = ("C12", "C02")
    bounded_scope = "groups of 0-3 members (unrolled); which members have a copy is symbolic"

    def cases(self):
        return [0, 1, 2, 3]

    def setup(self, ctx):
        from geoh5py.workspace import Workspace

        n = ctx.case
        map_f = z3.Function(fresh_name("map"), z3.IntSort(), z3.IntSort())
        in_f = z3.Function(fresh_name("copied"), z3.IntSort(), z3.BoolSort())
        members = [sym(f"member_{i}", "uid") for i in range(n)]
        data_map = SDict("uid", lambda k: in_f(to_z3(k)), lambda k: mk(map_f(to_z3(k)), "uid"), tag="data_map")
        pg = AbsObj("pg", {"properties": PList(members) if n else None, "association": Opaque("assoc"), "name": sym("pg_name", "str"), "property_group_type": sym("pg_type", "str"), "uid": sym("pg_uid", "uid")})
        ws = AbsObj("target-workspace", {}, {"find_property_group": lambda I, a, kw: None})

        def focpg(I, a, kw):
            I.event("create_group", kw=kw)
            return Opaque("new-group")

        entity = AbsObj("new-object", {"workspace": ws}, {"find_or_create_property_group": focpg})
        ctx.env.update(members=members, map_f=map_f, in_f=in_f)
        return [Workspace, entity, PList([pg]), data_map], {}

    def post(self, ctx, result):
        e = ctx.env
        creates = [p["kw"] for k, p in ctx.path.events if k == "create_group"]
        ctx.oblige("one-group-created", len(creates) == 1)
        if len(creates) != 1:
            return
        newp = creates[0].get("properties")
        if not e["members"]:
            ctx.oblige("a-group-without-members-stays-without", newp is None or (isinstance(newp, PList) and not newp.items))
            return
        ok = isinstance(newp, PList) and len(newp.items) == len(e["members"])
        ctx.oblige("as-many-members-as-the-source", ok)
        if ok:
            for i, (m, got) in enumerate(zip(e["members"], newp.items)):
                ctx.oblige(f"member-{i}-had-a-copy-and-the-copy-is-listed", z3.And(e["in_f"](m.e), to_z3(got) == e["map_f"](m.e)),
                           note="a member without a copy was listed under some other identifier (or a copied one under the wrong identifier)")

    def post_raises(self, ctx, sig):
        e = ctx.env
        ctx.oblige("refused-only-when-some-member-has-no-copy", z3.And(sig.exc_class is KeyError, z3.Or(*[z3.Not(e["in_f"](m.e)) for m in e["members"]]) if e["members"] else z3.BoolVal(False)), kind="post-exc")
        ctx.oblige("a-refused-group-is-not-created", not [1 for k, p in ctx.path.events if k == "create_group"], kind="post-exc")


class ObjectCopyTargets(Contract):
    """ObjectBase.copy writes only through the copy's workspace (abstract execution)."""
    target = "geoh5py/objects/object_base.py::ObjectBase.copy"
    props = ("C12", "C09")
    lenient = True

    def cases(self):
        return ["default-parent", "given-parent"]

    def setup(self, ctx):
        from geoh5py.objects import Points

        me = Opaque("self", cls=Points)
        src_ws = Opaque("source-workspace")
        dst_ws = Opaque("target-workspace")
        new_obj = Opaque("new-object")
        new_obj.attrs["workspace"] = dst_ws
        new_obj.attrs["uid"] = Opaque("new-uid")

        def ctp(I, a, kw):
            I.event("copy_to_parent", entity=a[0], parent=a[1])
            return new_obj if a[0] is me else Opaque("child-copy")

        def cpg(I, a, kw):
            I.event("copy_property_groups", target=a[0], groups=a[1], data_map=a[2])
            return None

        for ws, tag in ((src_ws, "source"), (dst_ws, "target")):
            ua = Opaque(tag + ".update_attribute")
            ua.maybe_method = (lambda I, a, kw, _t=tag: I.event("write", workspace=_t, entity=a[0], group=a[1] if len(a) > 1 else None))
            ws.attrs["update_attribute"] = ua
            c1 = Opaque(tag + ".copy_to_parent")
            c1.maybe_method = ctp
            ws.attrs["copy_to_parent"] = c1
            c2 = Opaque(tag + ".copy_property_groups")
            c2.maybe_method = cpg
            ws.attrs["copy_property_groups"] = c2
        me.attrs["workspace"] = src_ws
        me.attrs["parent"] = Opaque("own-parent")
        me.attrs["children"] = Opaque("self.children")
        me.attrs["property_groups"] = Opaque("self.property_groups")
        parent = None if ctx.case == "default-parent" else Opaque("given-parent")
        if parent is not None:
            ctx.path.assume(~parent.none_var())
        ctx.env.update(me=me, new_obj=new_obj, parent=parent)
        return [me], {"parent": parent}

    def post(self, ctx, result):
        e = ctx.env
        ev = ctx.path.events
        ctx.oblige("returns-the-new-object", result is e["new_obj"])
        first = [p for k, p in ev if k == "copy_to_parent" and p["entity"] is e["me"]]
        exp_parent = e["parent"] if e["parent"] is not None else e["me"].attrs["parent"]
        ctx.oblige("the-entity-is-copied-under-the-requested-parent", len(first) == 1 and first[0]["parent"] is exp_parent)
        writes = [p for k, p in ev if k == "write"]
        ctx.oblige("nothing-is-written-through-the-source-workspace", all(p["workspace"] == "target" for p in writes), note="; ".join(f"{p['workspace']}:{p['group']}" for p in writes))
        ctx.oblige("only-the-copy-is-written", all(p["entity"] is e["new_obj"] for p in writes))
        cpg = [p for k, p in ev if k == "copy_property_groups"]
        ctx.oblige("property-groups-are-copied-onto-the-new-object", all(p["target"] is e["new_obj"] and p["groups"] is e["me"].attrs["property_groups"] for p in cpg))
        kids = [p for k, p in ev if k == "copy_to_parent" and p["entity"] is not e["me"]]
        ctx.oblige("children-are-copied-under-the-new-object", all(p["parent"] is e["new_obj"] for p in kids))


# ------------------------------------------------------------------------------------------
# bounded stand-in: real copies compared attribute by attribute; source file digests
# ------------------------------------------------------------------------------------------


def _digest(path):
    """per-node digest of a geoh5 file (attributes and datasets)"""
    import h5py

    out = {}

    def visit(name, obj):
        h = hashlib.sha256()
        for k in sorted(obj.attrs):
            h.update(k.encode())
            h.update(repr(np.asarray(obj.attrs[k]).tolist()).encode())
        if isinstance(obj, h5py.Dataset):
            h.update(repr(np.asarray(obj[()]).tolist()).encode())
        out[name] = h.hexdigest()

    with h5py.File(path, "r") as f:
        f.visititems(visit)
    return out


def _snap(ent):
    d = {"class": type(ent).__name__, "name": ent.name}
    for a in ("vertices", "cells", "origin", "u_count", "v_count", "u_cell_size", "v_cell_size", "rotation", "dip"):
        if hasattr(ent, a):
            v = getattr(ent, a)
            d[a] = None if v is None else np.asarray(v).tolist()
    d["metadata"] = repr(ent.metadata)
    kids = {}
    for c in getattr(ent, "children", []):
        if hasattr(c, "values") and hasattr(c, "association"):
            v = c.values
            kids[c.name] = None if v is None else np.asarray(v).tolist()
    d["data"] = kids
    pgs = {}
    for pg in (getattr(ent, "property_groups", None) or []):
        names = []
        for uid in (pg.properties or []):
            hit = [c.name for c in ent.children if getattr(c, "uid", None) == uid]
            names.append(hit[0] if hit else f"<dangling {uid}>")
        pgs[pg.name] = names
    d["property_groups"] = pgs
    return d


class CopyNative(Contract):
    target = "geoh5py/workspace/workspace.py::Workspace.copy_to_parent"
    variant = "native"
    symbolic = False
    has_native = True
    props = ("C12",)
    bounded_scope = "Points / Curve / Grid2D with 7 data (incl. short names that are fragments of the reserved survey channel names; created in an order different from the property-group member order), metadata with a nested dict; copied to the same parent, another group, another workspace (fresh and with a pre-existing child uid); compared attribute by attribute live and after re-open; source snapshot and per-node source-file digest unchanged; edits of the copy do not show in the source"

    def native_cases(self, tier, rng):
        for kind in ("points", "curve", "grid2d"):
            for target in ("same", "group", "other-ws", "other-ws-with-child"):
                yield {"kind": kind, "target": target}
        # the copy's property group is edited afterwards (its own cases: the stored copy then differs from the source on purpose)
        for kind in ("points", "curve", "grid2d"):
            for target in ("same", "other-ws"):
                yield {"kind": kind, "target": target, "pg_edit": True}
        # a closed ring, copied with clear_cache=True (the source's cached arrays are released on the way)
        for target in ("same", "other-ws"):
            for parts_read in (False, True):
                yield {"kind": "ring", "target": target, "clear_cache": True, "parts_read": parts_read}
            # the same copies after other entities with their own copy rules (surveys pass their own omit lists) were copied in this process
            for prelude in ("tem", "dcip", "tipper", "drillhole"):
                yield {"kind": kind, "target": "other-ws", "prelude": prelude}

    def native_check(self, case):
        from geoh5py.groups import ContainerGroup
        from geoh5py.objects import Curve, Grid2D, Points
        from geoh5py.workspace import Workspace

        d = tempfile.mkdtemp()
        try:
            src_path, dst_path = os.path.join(d, "src.geoh5"), os.path.join(d, "dst.geoh5")
            if case.get("prelude"):
                from contracts.copy_wf import build

                with Workspace() as pre, Workspace() as pre2:
                    build(pre, case["prelude"]).copy(parent=pre2)
            with Workspace.create(src_path) as ws:
                if case["kind"] == "points":
                    obj = Points.create(ws, name="o", vertices=np.arange(12.0).reshape(4, 3))
                    n = 4
                elif case["kind"] == "curve":
                    obj = Curve.create(ws, name="o", vertices=np.arange(12.0).reshape(4, 3))
                    n = 4
                elif case["kind"] == "ring":
                    ang = np.arange(4) * np.pi / 2
                    obj = Curve.create(ws, name="o", vertices=np.c_[np.cos(ang), np.sin(ang), np.zeros(4)], cells=np.array([[0, 1], [1, 2], [2, 3], [3, 0]], dtype="uint32"))
                    n = 4
                else:
                    obj = Grid2D.create(ws, name="o", u_count=2, v_count=2, u_cell_size=1.0, v_cell_size=2.0, origin=[1.0, 2.0, 3.0], rotation=30.0)
                    n = 4
                assoc = "CELL" if case["kind"] == "grid2d" else "VERTEX"
                a = obj.add_data({"dip": {"values": np.arange(n) + 0.5, "association": assoc}})
                b = obj.add_data({"azimuth": {"values": np.arange(n) + 10.5, "association": assoc}})
                c = obj.add_data({"other": {"values": np.arange(n) + 20.5, "association": assoc}})
                # short names that are fragments of the reserved survey channel names ("A-B Cell ID", "Transmitter ID") are ordinary data
                for extra, name in enumerate(("ID", "Cell", "B", "Transmitter") + (("A-B Cell ID", "Transmitter ID") if case["kind"] in ("curve", "points") else ())):  # on a plain object the reserved names themselves are ordinary data too
                    obj.add_data({name: {"values": np.arange(n) + 30.5 + extra, "association": assoc}})
                obj.add_data_to_group([b, a], "orient")  # member order differs from creation order
                a.entity_type.color_map = np.c_[np.linspace(0.0, 2.0, 4), np.arange(4) * 10, np.arange(4) * 20, np.arange(4) * 30, np.ones(4) * 255]
                obj.add_data({"ref": {"values": np.array([1, 2, 1, 2][:n], dtype="uint32"), "association": assoc, "type": "referenced", "value_map": {1: "A", 2: "B"}}})
                obj.metadata = {"info": {"nested": [1, 2, 3]}, "k": "v"}
                grp = ContainerGroup.create(ws, name="g")
            before_digest = _digest(src_path)
            with Workspace(src_path, mode="r+") as ws:
                obj = ws.get_entity("o")[0]
                if case.get("parts_read"):
                    obj.parts
                before = _snap(obj)
                ckw = {"clear_cache": True} if case.get("clear_cache") else {}
                if case["target"] == "same":
                    new = obj.copy(**ckw)
                    dst = None
                elif case["target"] == "group":
                    new = obj.copy(parent=ws.get_entity("g")[0])
                    dst = None
                else:
                    dst = Workspace.create(dst_path)
                    if case["target"] == "other-ws-with-child":
                        holder = Points.create(dst, name="holder", vertices=np.zeros((n, 3)))
                        obj.children[0].copy(parent=holder) if hasattr(obj.children[0], "values") else None
                        [ch for ch in obj.children if getattr(ch, "name", "") == "azimuth"][0].copy(parent=holder)
                    new = obj.copy(parent=dst, **ckw)
                got = _snap(new)
                for k in before:
                    if before[k] != got[k]:
                        return f"copy differs from its source in {k}: {got[k]} vs {before[k]} ({case})"
                if _snap(obj) != before:
                    return f"the source entity changed while it was copied: {[k for k in before if _snap(obj)[k] != before[k]]} ({case})"
                # edits of the copy must not show through
                new.metadata["info"]["nested"].append(99)
                if "99" in repr(obj.metadata):
                    return f"editing the copy's metadata changed the source's metadata ({case})"
                new.metadata["info"]["nested"].pop()
                # ... nor edits of the copy's arrays in place (the usual v = copy.values; v[:k] = x; copy.values = v)
                for kid in new.children:
                    v = getattr(kid, "values", None)
                    if isinstance(v, np.ndarray) and v.dtype.kind == "f" and len(v):
                        v[: max(1, len(v) // 2)] = -999.25
                # ... nor edits of the maps of the copy's data types (when the copy has types of its own: another workspace)
                if dst is not None:
                    for name in ("dip", "ref"):
                        st, ct = obj.get_data(name)[0].entity_type, new.get_data(name)[0].entity_type
                        if st.color_map is not None and (ct.color_map is st.color_map or st.color_map.parent is not st):
                            return f"the colour map of the source's '{name}' type is shared with (or now owned by) the type of the copy ({case})"
                        if st.value_map is not None:
                            if ct.value_map is st.value_map:
                                return f"the value map of the source's '{name}' type is the very object the copy's type holds ({case})"
                            ct.value_map.map[9] = "edited in the copy"
                            if 9 in st.value_map.map:
                                return f"an entry added to the value map of the copy's '{name}' type shows in the source's ({case})"
                # ... nor edits of the copy's property groups (a member added, a member taken out)
                for pg in ((new.property_groups or [])[:1] if case.get("pg_edit") else []):
                    outsiders = [k for k in new.children if hasattr(k, "values") and k.uid not in (pg.properties or [])]
                    if outsiders:
                        pg.add_properties(outsiders[0])
                    if pg.properties:
                        pg.remove_properties([pg.properties[0]])
                vv = getattr(new, "vertices", None) if case["kind"] != "grid2d" else None
                if isinstance(vv, np.ndarray) and vv.size:
                    vv[0, 0] = -999.25
                if _snap(obj) != before:
                    bad = [k for k in before if _snap(obj)[k] != before[k]]
                    return f"editing the arrays of the copy in place changed the source's {bad} ({case})"
                if _snap(obj) != before:
                    return f"the source entity changed while it was copied ({case})"
                if dst is not None:
                    dst.close()
            after_digest = _digest(src_path)
            if case["target"] in ("other-ws", "other-ws-with-child"):
                changed = sorted(k for k in before_digest if after_digest.get(k) != before_digest[k]) + sorted(set(after_digest) - set(before_digest))
                if changed:
                    return f"copying into another workspace changed the source file at {changed[:3]} ({case})"
                with Workspace(dst_path, mode="r") as dws:
                    back = _snap(dws.get_entity("o")[0])
                for k in before:
                    if k == "property_groups" and case.get("pg_edit"):
                        continue
                    if before[k] != back[k]:
                        return f"re-opened copy differs from its source in {k}: {back[k]} vs {before[k]} ({case})"
        finally:
            shutil.rmtree(d, ignore_errors=True)
        return None


class GroupCopyNative(Contract):
    """Bounded stand-in: a drillhole group copied inside its workspace and into another workspace
    equals its source hole by hole (names, collars, every data set's values -- also for data names
    containing a slash, which the file stores under a substitute character) and leaves the source
    group's stored arrays unchanged."""
    target = "geoh5py/shared/concatenation/concatenator.py::Concatenator.copy"
    variant = "native"
    symbolic = False
    has_native = True
    props = ("C12", "C09")
    bounded_scope = "a drillhole group with 2 holes, depth logs named 'Au', 'Cu/Zn' and 'my_log/' (one hole lacks one of them) a text log and an interval table ('Pb/Zn', 'Ag') in a property group; copied to {same workspace, another workspace}, cache {warm, cold after a re-open, the creating session}; format versions 2.0 / 2.1 and ga_version 4.2"

    def native_cases(self, tier, rng):
        for target in ("same", "other-ws"):
            for cache in ("warm", "cold", "creating-session"):
                for version, ga in ((2.0, None), (2.1, None), (2.0, "4.2")):
                    yield {"target": target, "cache": cache, "version": version, "ga_version": ga}

    @staticmethod
    def _snap(group):
        out = {}
        # what the group holds itself besides its holes (comments, attached data)
        own = []
        for c in group.children:
            if not type(c).__name__.endswith("Drillhole"):
                v = getattr(c, "values", None)
                own.append((type(c).__name__, c.name, repr([d.get("Text") for d in v]) if isinstance(v, list) else repr(None if v is None else np.asarray(v).tolist())))
        out["<the group itself>"] = {"collar": None, "data": {"own": sorted(own)}, "groups": {}}
        for h in sorted(group.children, key=lambda c: c.name):
            if not type(h).__name__.endswith("Drillhole"):
                continue
            datas = {}
            # concatenated holes load their data on demand: ask by name, do not rely on the child list
            for name in sorted(h.get_data_list()):
                got = h.get_data(name)
                v = got[0].values if got else None
                datas[name] = None if v is None else np.asarray(v).tolist()
            out[h.name] = {"collar": [float(h.collar[k]) for k in ("x", "y", "z")], "data": datas,
                           "groups": {pg.name: len(pg.properties or []) for pg in (h.property_groups or [])}}
        return out

    def native_check(self, case):
        from geoh5py.groups import DrillholeGroup
        from geoh5py.objects import Drillhole
        from geoh5py.workspace import Workspace

        d = tempfile.mkdtemp()
        try:
            src_path, dst_path = os.path.join(d, "src.geoh5"), os.path.join(d, "dst.geoh5")
            kw = {"ga_version": case["ga_version"]} if case.get("ga_version") else {}
            with Workspace.create(src_path, version=case["version"], **kw) as ws:
                g = DrillholeGroup.create(ws, name="campaign")
                for k in range(2):
                    h = Drillhole.create(ws, name=f"H{k}", parent=g, collar=np.r_[float(k), 1.0, 2.0], surveys=np.c_[np.r_[0.0, 10.0], np.zeros(2), np.ones(2) * -90.0])
                    dep = np.array([1.0, 2.0, 3.0])
                    h.add_data({"Au": {"depth": dep, "values": np.arange(3.0) + 10 * k}})
                    h.add_data({"Cu/Zn": {"depth": dep, "values": np.arange(3.0) + 100 + 10 * k}})
                    if k == 0:
                        h.add_data({"my_log/": {"depth": dep, "values": np.arange(3.0) + 200}})
                    h.add_data({"lith": {"depth": dep, "values": np.array(["a", "bb", "ccc"]), "type": "text"}})
                    ft = np.c_[np.arange(4.0), np.arange(4.0) + 1]
                    h.add_data({"Pb/Zn": {"from-to": ft, "values": np.arange(4.0) / 4 + k}, "Ag": {"from-to": ft, "values": np.arange(4.0) + 50 * k}}, property_group="assays")
                g.add_comment("drilled in 2021", author="crew")  # the group's own data
                if case["cache"] == "creating-session":
                    # copy straight away, in the session that created the group
                    dst = None
                    try:
                        ref = self._snap(g)
                        if case["target"] == "same":
                            new = g.copy(name="campaign copy")
                        else:
                            dst = Workspace.create(dst_path, version=case["version"], **kw)
                            new = g.copy(parent=dst)
                        got = self._snap(new)
                        if got != ref or self._snap(g) != ref:
                            bad = next((f"hole {h}: {k} {got.get(h, {}).get('data', {}).get(k)!r} vs {v!r}" for h, hv in ref.items() for k, v in hv["data"].items() if got.get(h, {}).get("data", {}).get(k) != v), "hole list, collars or the source differ")
                            return f"the copied group differs from its source: {bad} ({case})"
                    finally:
                        if dst is not None:
                            dst.close()
                    return None
            before_digest = _digest(src_path)
            ws = Workspace(src_path, mode="r+")
            dst = None
            try:
                g = ws.get_entity("campaign")[0]
                if case["cache"] == "warm":
                    ref = self._snap(g)
                if case["target"] == "same":
                    new = g.copy(name="campaign copy")
                else:
                    dst = Workspace.create(dst_path, version=case["version"], **kw)
                    new = g.copy(parent=dst)
                ref = self._snap(g)
                if not all(len(hv["data"]) >= 5 for hn_, hv in ref.items() if hn_ != "<the group itself>") or not ref["<the group itself>"]["data"]["own"]:
                    return f"harness: the source snapshot is incomplete ({ {h: sorted(v['data']) for h, v in ref.items()} })"
                got = self._snap(new)
                if got != ref:
                    bad = next((f"hole {h}: {k} {got.get(h, {}).get('data', {}).get(k)!r} vs {v!r}" for h, hv in ref.items() for k, v in hv["data"].items() if got.get(h, {}).get("data", {}).get(k) != v), "hole list or collars differ")
                    return f"the copied group differs from its source: {bad} ({case})"
            finally:
                if dst is not None:
                    dst.close()
                ws.close()
            if case["target"] == "other-ws":
                after = _digest(src_path)
                changed = sorted(k for k in before_digest if after.get(k) != before_digest[k]) + sorted(set(after) - set(before_digest))
                if changed:
                    return f"copying the group into another workspace changed the source file at {changed[:3]} ({case})"
                with Workspace(dst_path, mode="r") as back:
                    got = self._snap(back.get_entity("campaign")[0])
                if got != ref:
                    return f"the re-opened copy differs from its source ({case})"
        finally:
            shutil.rmtree(d, ignore_errors=True)
        return None


class GridCopyTargets(ObjectCopyTargets):
    target = "geoh5py/objects/grid_object.py::GridObject.copy"

    def setup(self, ctx):
        args, kw = super().setup(ctx)
        from geoh5py.objects import Grid2D

        ctx.env["me"].cls = Grid2D
        return args, kw


class CellCopyTargets(ObjectCopyTargets):
    target = "geoh5py/objects/cell_object.py::CellObject.copy"

    def setup(self, ctx):
        args, kw = super().setup(ctx)
        from geoh5py.objects import Curve

        ctx.env["me"].cls = Curve
        return args, kw


CONTRACTS = [CopyPropertyGroups, CopyPropertyGroupsSkippedMember, ObjectCopyTargets, CopyNative, GroupCopyNative]  # Grid/Cell variants: path explosion / different shape, left to the native part


class CopyEqualsByKind(Contract):
    """A copy equals its source in every attribute of the class's attribute map (set to non-default
    values first), in its geometry arrays and in the values of every data child -- for every kind of
    object with its own copy rules -- and the copy is an entity in its own right: it can be edited
    (a new depth log on a copied drillhole, new values on its data) without the source noticing."""
    target = "geoh5py/objects/object_base.py::ObjectBase.copy"
    variant = "copy-equals-source-by-kind"
    symbolic = False
    has_native = True
    native_shards = 4
    props = ("C12",)
    bounded_scope = "one object per kind in {points, curve, surface, grid2d, geoimage, block model, octree, drillhole, airborne TEM pair, DC/IP pair, tipper pair} with data and non-default scalar attributes (flags flipped, drillhole cost / planning / end_of_hole beyond the last survey); copy into {same workspace, another workspace}; attribute-map attributes, geometry arrays, data values compared; then the copy is edited and the source re-compared (exhaustive over 12 kinds x 2 targets)"

    SKIP = {"uid", "property_groups", "last_focus", "clipping_ids: list | None", "name"}
    # the counts come first: they must answer before anything else has been read back
    ARRAYS = ("n_cells", "n_vertices", "vertices", "cells", "surveys", "octree_cells", "u_cell_delimiters", "v_cell_delimiters", "z_cell_delimiters", "layers", "prisms", "centroids", "extent", "metadata")

    def native_cases(self, tier, rng):
        from contracts.copy_wf import KINDS

        for kind in KINDS:
            if kind == "group":
                continue
            for target in ("same", "other"):
                yield {"kind": kind, "target": target}
            yield {"kind": kind, "target": "same", "clear_cache": True}
        # copy(uid=...): the copy carries the identifier asked for
        for kind in ("points", "curve", "drillhole"):
            for target in ("same", "other"):
                yield {"kind": kind, "target": target, "uid_requested": True}
        # a property group of a DC survey that lists the survey's own "A-B Cell ID" channel next to ordinary data
        for target in ("same", "other"):
            yield {"kind": "dcip", "target": target, "grouped_ab": True}

    @classmethod
    def _describe(cls, ent):
        d = {}
        for attr in sorted(set(type(ent)._attribute_map.values()) - cls.SKIP):
            try:
                v = getattr(ent, attr)
            except Exception as exc:
                v = f"<{type(exc).__name__}>"
            d[attr] = np.asarray(v).tolist() if isinstance(v, (np.ndarray, np.void)) else (v if isinstance(v, (int, float, str, bool, type(None), list, tuple)) else repr(v))
        for attr in cls.ARRAYS:
            if hasattr(type(ent), attr):
                try:
                    v = getattr(ent, attr)
                except Exception as exc:
                    v = f"<{type(exc).__name__}>"
                d["array:" + attr] = None if v is None else (v if isinstance(v, str) else np.asarray(v).tolist())
        for c in getattr(ent, "children", []):
            if hasattr(c, "values") and hasattr(c, "association"):
                v = c.values
                d["data:" + c.name] = None if v is None else (v if isinstance(v, str) else np.asarray(v).tolist())
        return {k: repr(v) for k, v in d.items()}  # text form: NaN entries compare equal

    def native_check(self, case):
        from contracts.copy_wf import build
        from geoh5py.workspace import Workspace

        d = tempfile.mkdtemp()
        try:
            with Workspace.create(os.path.join(d, "src.geoh5")) as ws, Workspace.create(os.path.join(d, "dst.geoh5")) as other:
                obj = build(ws, case["kind"])
                for flag in ("allow_move", "allow_rename", "visible", "public", "partially_hidden"):
                    setattr(obj, flag, not getattr(obj, flag))
                if case["kind"] == "drillhole":
                    obj.cost, obj.planning, obj.end_of_hole = 1234.5, "Ongoing", 150.0  # the hole goes on below its last survey station
                if case.get("grouped_ab"):
                    obj.add_data_to_group([obj.get_data("v")[0], obj.ab_cell_id], "grp")
                groups_of = lambda ent: sorted((g.name, sorted(ent.get_entity(u)[0].name for u in (g.properties or []))) for g in (ent.property_groups or []))
                before = self._describe(obj)
                groups_before = groups_of(obj)
                import signal
                import uuid as _uuid

                extra = {"clear_cache": True} if case.get("clear_cache") else {}
                if case.get("uid_requested"):
                    extra["uid"] = _uuid.UUID(int=4242)

                def _late(*_a):
                    raise TimeoutError

                old_handler = signal.signal(signal.SIGALRM, _late)
                signal.alarm(60)
                try:
                    new = obj.copy(parent=other if case["target"] == "other" else None, **extra)
                except KeyError as exc:
                    return f"a {case['kind']} could not be copied: KeyError {exc} ({case})"
                except TimeoutError:
                    return f"copy({', '.join(k + '=...' for k in extra)}) of a {case['kind']} with {len(before) and len([k for k in before if k.startswith('data:')])} data had not returned after 60 s; its source now holds {len(obj.children)} children ({case})"
                finally:
                    signal.alarm(0)
                    signal.signal(signal.SIGALRM, old_handler)
                if new is None:
                    return f"copy({', '.join(k + '=...' for k in extra)}) of a {case['kind']} returned nothing ({case})"
                if case.get("uid_requested") and new.uid != extra["uid"]:
                    return f"copy(uid=...) of a {case['kind']}: the copy carries the identifier {new.uid}, {extra['uid']} was asked for ({case})"
                got = self._describe(new)
                if groups_of(new) != groups_before:
                    return f"the copy of a {case['kind']} has the property groups {groups_of(new)}, its source {groups_before} ({case})"
                for k in before:
                    if k in ("array:metadata", "array:extent") and case["kind"] in ("tem", "dcip", "tipper"):
                        continue  # a linked copy records its own partner (C20's subject); compared only for "the source is unchanged"
                    if before[k] != got.get(k):
                        return f"the copy of a {case['kind']} differs from its source in {k}: {got.get(k)!r} instead of {before[k]!r} ({case})"
                if self._describe(obj) != before:
                    return f"copying a {case['kind']} changed the source ({case})"
                # the copy is edited like any entity
                try:
                    if case["kind"] == "drillhole" and isinstance(new.cells, np.ndarray) and new.cells.size:
                        # the interval cells the copy hands out, overwritten in place and put back
                        saved = new.cells.copy()
                        new.cells[...] = 0
                        if self._describe(obj) != before:
                            return f"overwriting the interval cells of the copy of a drillhole in place changed the source's cells ({case})"
                        new.cells[...] = saved
                    if case["kind"] == "drillhole":
                        new.add_data({"extra_log": {"depth": np.array([5.0, 15.0, 55.0]), "values": np.arange(3.0)}})
                        seen = np.asarray(new.get_data("extra_log")[0].values, dtype=float)
                        if len(seen) != len(new.vertices) or np.isfinite(seen).sum() != 3:
                            return f"a depth log added to the copy of a drillhole holds {seen.tolist()} for {len(new.vertices)} vertices ({case})"
                    for c in new.children:
                        v = getattr(c, "values", None)
                        if isinstance(v, np.ndarray) and v.dtype.kind == "f" and len(v):
                            c.values = v + 1000.0
                    new.allow_delete = not new.allow_delete
                    # the arrays the copy hands out are its own: edited in place, they change nothing in the source
                    for attr in ("vertices", "cells", "surveys", "u_cell_delimiters", "v_cell_delimiters", "z_cell_delimiters", "layers", "prisms", "octree_cells"):
                        if not hasattr(type(new), attr):
                            continue
                        arr = getattr(new, attr, None)
                        if isinstance(arr, np.ndarray) and arr.size and arr.flags.writeable:
                            if arr.dtype.names:
                                for fld in arr.dtype.names:
                                    arr[fld][...] = arr[fld][::-1].copy()
                            else:
                                arr[...] = arr[::-1].copy() if len(arr) > 1 else arr + 1

                    def scribble(node):  # nested records of the copy's metadata are edited in place
                        if isinstance(node, dict):
                            for k in list(node):
                                if isinstance(node[k], (dict, list)):
                                    scribble(node[k])
                                elif isinstance(node[k], (int, float)) and not isinstance(node[k], bool):
                                    node[k] = node[k] + 1000
                        elif isinstance(node, list):
                            for i_, v_ in enumerate(node):
                                if isinstance(v_, (dict, list)):
                                    scribble(v_)
                                elif isinstance(v_, (int, float)) and not isinstance(v_, bool):
                                    node[i_] = v_ + 1000

                    if isinstance(new.metadata, dict):
                        scribble(new.metadata)
                except Exception as exc:
                    return f"editing the copy of a {case['kind']} failed: {type(exc).__name__}: {exc} ({case})"
                after = self._describe(obj)
                if after != before:
                    return f"editing the copy of a {case['kind']} changed the source's {[k for k in before if after.get(k) != before[k]]} ({case})"
            return None
        finally:
            shutil.rmtree(d, ignore_errors=True)


CONTRACTS = CONTRACTS + [CopyEqualsByKind]


class GetAttributesStub(Contract):
    """call summary of utils.get_attributes inside copy_to_parent: the attribute dictionary of the
    entity (or of its type), as prepared by the contract's setup; the omit list is recorded."""
    target = "geoh5py/shared/utils.py::get_attributes"
    variant = "summary-for-copy_to_parent"
    symbolic = False
    props = ()

    def apply(self, I, args, kwargs):
        ent = args[0]
        omit = kwargs.get("omit_list", args[1] if len(args) > 1 else ())
        I.event("get_attributes", entity=ent, omit=[x for x in getattr(omit, "items", omit)])
        return I.ctx.env["attrs_of"](ent, kwargs.get("attributes", args[2] if len(args) > 2 else None))


class ClearArraysStub(Contract):
    target = "geoh5py/shared/utils.py::clear_array_attributes"
    variant = "summary-for-copy_to_parent"
    symbolic = False
    props = ()

    def apply(self, I, args, kwargs):
        I.event("clear_array_attributes", entity=args[0])
        return None


class CopyToParent(Contract):
    """Workspace.copy_to_parent, the one function every copy goes through: the new entity is created
    in the *target* parent's workspace from the source's attributes without its identity (uid, type
    object, stored flag) and without what the copy must build for itself (property groups, the
    depth channel); the identifier is the source's exactly when it is free in the target; the
    metadata handed over is a copy; keyword overrides replace existing attributes only."""
    target = "geoh5py/workspace/workspace.py::Workspace.copy_to_parent"
    props = ("C12", "C06", "C02")
    lenient = True
    uses = (GetAttributesStub, ClearArraysStub)

    def cases(self):
        return [(kind, free, target, clear) for kind in ("object", "data", "drillhole") for free in (True, False) for target in ("group", "workspace") for clear in (False, True)] + [("object", True, "not-a-container", False)] + [("root", free, target, False) for free in (True, False) for target in ("group", "workspace")] + [("object-with-uid", free, "group", False) for free in (True, False)]

    def setup(self, ctx):
        from geoh5py.data import FloatData
        from geoh5py.groups import ContainerGroup, RootGroup
        from geoh5py.objects import Drillhole, Points
        from geoh5py.workspace import Workspace

        kind, free, target, clear = ctx.case
        cls = {"object": Points, "data": FloatData, "drillhole": Drillhole, "root": RootGroup, "object-with-uid": Points}[kind]
        me = Opaque("self", cls=Workspace)
        ent = Opaque("entity", cls=cls)
        ent.attrs["uid"] = Opaque("entity.uid")
        ent.attrs["entity_type"] = Opaque("entity.entity_type")
        md = PDict({"info": PDict({"nested": PList([1, 2, 3])})})
        attrs = {"name": "source", "metadata": md, "property_groups": PList([Opaque("pg")]), "vertices": Opaque("vertices"), "visible": False}
        if kind == "drillhole":
            attrs["depths"] = Opaque("source-DEPTH-entity")
        vm = Opaque("source-type.value_map")
        vm.attrs["map"] = PDict({1: "A", 2: "B"})
        cm = Opaque("source-type.color_map")
        cm.attrs["name"] = "map.TBL"
        cm.attrs["values"] = Opaque("colour-table")
        ctx.path.assume(~vm.none_var())
        ctx.path.assume(~cm.none_var())
        ctx.env.update(vm=vm, cm=cm)
        type_uid = Opaque("type.uid")
        ctx.env["type_uid"] = type_uid
        ctx.env["attrs_of"] = lambda e_, base: PDict({**(getattr(base, "items", base) or {}), **attrs}) if e_ is ent else PDict({"name": "type-name", "uid": type_uid, "value_map": vm, "color_map": cm})
        tws = Opaque("target-workspace", cls=Workspace)
        ge = Opaque("target.get_entity")
        taken_by = Opaque("someone-else")
        ctx.path.assume(~taken_by.none_var())
        ge.maybe_method = lambda I, a, kw: (I.event("lookup", uid=a[0]), PList([None if free else taken_by]))[1]
        tws.attrs["get_entity"] = ge
        # the name tables of the target (another way to ask who holds an identifier): consistent with the lookup
        for table in ("list_entities_name", "list_objects_name", "list_groups_name", "list_data_name"):
            tws.attrs[table] = PDict({} if free else {ent.attrs["uid"]: "someone else"})
        new = Opaque("new-entity", cls=cls)
        ce = Opaque("target.create_entity")
        ce.maybe_method = lambda I, a, kw: (I.event("create_entity", cls=a[0] if a else None, kw=dict(kw)), new)[1]
        tws.attrs["create_entity"] = ce
        root = Opaque("target-root", cls=ContainerGroup)
        root.attrs["workspace"] = tws
        tws.attrs["root"] = root
        tws.attrs["workspace"] = tws
        if target == "group":
            parent = Opaque("parent-group", cls=ContainerGroup)
            parent.attrs["workspace"] = tws
        elif target == "workspace":
            parent = tws
        else:
            parent = Opaque("a-data-entity", cls=FloatData)
        own_ce = Opaque("self.create_entity")
        own_ce.maybe_method = lambda I, a, kw: (I.event("create_in_source_workspace"), Opaque("wrong"))[1]
        me.attrs["create_entity"] = own_ce
        own_ge = Opaque("self.get_entity")
        own_ge.maybe_method = lambda I, a, kw: (I.event("lookup_in_source_workspace"), PList([None]))[1]
        me.attrs["get_entity"] = own_ge
        me.attrs["find_entity"] = own_ge
        ctx.env.update(ent=ent, md=md, parent=parent, root=root, new=new, attrs=attrs)
        if kind == "object-with-uid":
            req = Opaque("requested-uid")
            ctx.path.assume(~req.none_var())
            ctx.env["req"] = req
            return [me, ent, parent], {"clear_cache": clear, "visible": True, "not_an_attribute": 5, "uid": req}
        return [me, ent, parent], {"clear_cache": clear, "visible": True, "not_an_attribute": 5}

    def post(self, ctx, result):
        e = ctx.env
        kind, free, target, clear = ctx.case
        ev = ctx.path.events
        if target == "not-a-container":
            ctx.oblige("a-parent-that-cannot-hold-children-is-refused", False, note="copy_to_parent returned normally for a data entity given as parent")
            return
        made = [p for k, p in ev if k == "create_entity"]
        ctx.oblige("created-once-in-the-target-parents-workspace", len(made) == 1 and not [1 for k, p in ev if k == "create_in_source_workspace"] and result is e["new"])
        if len(made) != 1:
            return
        kw = made[0]["kw"]
        ek, tk = kw.get("entity"), kw.get("entity_type")
        ok = isinstance(ek, PDict) and isinstance(tk, PDict)
        ctx.oblige("entity-and-type-attributes-are-handed-over", ok)
        if not ok:
            return
        ei = ek.items
        if kind == "object-with-uid":
            # copy(uid=...): the identifier asked for is the new entity's; the type keeps its own
            ctx.oblige("a-requested-identifier-is-the-entitys", ei.get("uid") is e["req"], note=f"uid handed to the constructor: {ei.get('uid')!r}")
            ctx.oblige("a-requested-identifier-is-not-the-types", tk.items.get("uid") is e["type_uid"],
                       note="the identifier asked for the entity was also given to its type: no class carries that type identifier, nothing is created, and the caller goes on to copy the children under 'no parent'")
        else:
            ctx.oblige("identifier-kept-exactly-when-free-in-the-target", (ei.get("uid") is e["ent"].attrs["uid"]) if free else (ei.get("uid") is None),
                       note=f"uid handed to the constructor: {ei.get('uid')!r}")
        looks = [p for k, p in ev if k == "lookup"]
        ctx.oblige("freedom-is-decided-by-a-lookup-in-the-target-workspace", (len(looks) >= 1 or kind == "object-with-uid") and all(p["uid"] is e["ent"].attrs["uid"] for p in looks) and not [1 for k, p in ev if k == "lookup_in_source_workspace"])
        ctx.oblige("the-copy-hangs-under-the-requested-parent", ei.get("parent") is (e["root"] if target == "workspace" else e["parent"]))
        ctx.oblige("property-groups-and-depth-channel-are-not-handed-over", "property_groups" not in ei and "depths" not in ei,
                   note="the copy would point at property groups / the DEPTH data of its source")
        m = ei.get("metadata")
        deep = isinstance(m, PDict) and m is not e["md"] and isinstance(m.items.get("info"), PDict) and m.items["info"] is not e["md"].items["info"]
        deep = deep and isinstance(m.items["info"].items.get("nested"), PList) and m.items["info"].items["nested"] is not e["md"].items["info"].items["nested"] and m.items["info"].items["nested"].items == [1, 2, 3]
        ctx.oblige("metadata-is-a-deep-copy-with-the-same-content", deep, note="the copy's metadata (or a nested part of it) is the very object its source holds: edits of one show in the other")
        ctx.oblige("other-attributes-are-the-sources", ei.get("name") == "source" and ei.get("vertices") is e["attrs"]["vertices"])
        ti = tk.items
        ctx.oblige("the-new-type-gets-maps-of-its-own", ti.get("value_map") is not e["vm"] and ti.get("color_map") is not e["cm"] and ti.get("value_map") is not e["vm"].attrs["map"],
                   note="the value map / colour map object of the source's type is handed to the type of the copy: a map records its owner, and edits of one type's map show in the other")
        ctx.oblige("keyword-overrides-replace-existing-attributes-only", ei.get("visible") is True and "not_an_attribute" not in ei and "clear_cache" not in ei)
        omits = [p for k, p in ev if k == "get_attributes" and p["entity"] is e["ent"]]
        ctx.oblige("identity-fields-are-left-out-of-the-attribute-collection", len(omits) == 1 and {"_uid", "_entity_type", "_on_file"} <= set(omits[0]["omit"]),
                   note="the copy would be built with its source's identifier object, type object or stored flag")
        from geoh5py.data import Data, FloatData

        if kind == "root":
            # a file has one Root, and storing a Root group re-points the file's Root link (H5Writer.save_entity):
            # whatever the copy of a Root becomes, it is not created as the target's (second) Root
            from geoh5py.groups import Group, RootGroup

            made_cls = made[0]["cls"]
            ctx.oblige("the-copy-of-a-root-is-not-a-second-root", made_cls is not RootGroup and isinstance(made_cls, type) and issubclass(made_cls, Group) and issubclass(RootGroup, made_cls),
                       note=f"created as {getattr(made_cls, '__name__', made_cls)}: stored, it takes over the Root link of the target file and what the target held is orphaned")
        else:
            ctx.oblige("data-go-through-the-data-dispatcher-others-through-their-own-class", made[0]["cls"] is (Data if kind == "data" else e["ent"].cls))
        cleared = [p["entity"] for k, p in ev if k == "clear_array_attributes"]
        ctx.oblige("caches-released-exactly-on-request", (len(cleared) == 2 and any(x is e["ent"] for x in cleared) and any(x is e["new"] for x in cleared)) if clear else not cleared)

    def post_raises(self, ctx, sig):
        kind, free, target, clear = ctx.case
        ctx.oblige("only-an-unsuitable-parent-is-refused", target == "not-a-container" and sig.exc_class is ValueError and not [1 for k, p in ctx.path.events if k == "create_entity"], kind="post-exc")


CONTRACTS = CONTRACTS + [GetAttributesStub, ClearArraysStub, CopyToParent]


class GroupSubtreeCopy(Contract):
    """Copying a group reproduces its whole subtree -- as it stood when the copy was requested -- under
    any target parent of the same or another workspace, the group itself and one of its own subgroups
    included, and creates nothing else; the source subtree is unchanged (apart from the new child when
    the target lies inside it)."""
    target = "geoh5py/groups/base.py::Group.copy"
    variant = "subtree-native"
    symbolic = False
    has_native = True
    props = ("C12", "C13")
    bounded_scope = ("a group holding {points with 2 data and a property group, a curve, a subgroup holding {points with data, an empty subgroup}}; copy() and copy_from_extent(box keeping everything) "
                     "into {its own parent, another group, another workspace, a group of another workspace, the group itself, its own subgroup}; with and without children; the copy's tree (classes, names, "
                     "data values, property group members by name) equals the source's tree at request time; entity count of the target workspace grows by exactly the size of the copied tree "
                     "(exhaustive over the listed combinations)")

    def native_cases(self, tier, rng):
        for op in ("copy", "extent"):
            for target in ("same-parent", "another-group", "other-workspace", "group-of-other-workspace", "itself", "own-subgroup"):
                for children in (True, False):
                    yield {"op": op, "target": target, "copy_children": children}

    @classmethod
    def _tree(cls, ent, skip=()):
        kids = []
        for c in getattr(ent, "children", []):
            if any(c is s for s in skip):
                continue
            if hasattr(c, "values") and hasattr(c, "association"):
                v = c.values
                kids.append(("data", type(c).__name__, c.name, None if v is None else repr(np.asarray(v).tolist())))
            elif hasattr(c, "properties") and not hasattr(c, "children"):
                continue
            else:
                kids.append(cls._tree(c, skip))
        pgs = []
        for pg in (getattr(ent, "property_groups", None) or []):
            pgs.append((pg.name, sorted(ent.get_entity(u)[0].name for u in (pg.properties or []))))
        verts = getattr(ent, "vertices", None)
        # the entity's type as the copy carries it (rebuilt from the source's when the target workspace does not hold it yet)
        et = getattr(ent, "entity_type", None)
        tdesc = tuple((a, repr(getattr(et, a, None))) for a in sorted(set(getattr(type(et), "_attribute_map", {}).values()) - {"uid"}) if isinstance(getattr(et, a, None), (str, bool, int, float, type(None))))
        return (type(ent).__name__ + repr(tdesc), ent.name if not getattr(ent, "_is_copy_root", False) else "<root>", None if verts is None else repr(np.asarray(verts).tolist()), sorted(pgs), sorted(kids, key=repr))

    @staticmethod
    def _size(tree):
        return 1 + sum(1 if k[0] == "data" else GroupSubtreeCopy._size(k) for k in tree[4])

    def native_check(self, case):
        import sys

        from geoh5py.groups import ContainerGroup
        from geoh5py.objects import Curve, Points
        from geoh5py.workspace import Workspace

        d = tempfile.mkdtemp()
        limit = sys.getrecursionlimit()
        try:
            with Workspace.create(os.path.join(d, "src.geoh5")) as ws, Workspace.create(os.path.join(d, "dst.geoh5")) as other:
                top = ContainerGroup.create(ws, name="top")
                elsewhere = ContainerGroup.create(ws, name="elsewhere")
                g = ContainerGroup.create(ws, name="g", parent=top)
                v = np.c_[np.arange(4.0), np.arange(4.0) * 2, np.zeros(4)]
                p = Points.create(ws, name="p", vertices=v, parent=g)
                dat = p.add_data({"a": {"values": np.arange(4.0)}, "b": {"values": np.arange(4.0) + 10}})
                p.add_data_to_group(dat, "pg")
                Curve.create(ws, name="c", vertices=v + 1.0, parent=g)
                sub = ContainerGroup.create(ws, name="sub", parent=g)
                q = Points.create(ws, name="q", vertices=v + 2.0, parent=sub)
                q.add_data({"z": {"values": np.arange(4.0) * 3}})
                ContainerGroup.create(ws, name="hollow", parent=sub)
                # group types whose two content permissions differ
                g.entity_type.allow_delete_content = False
                sub.entity_type.description = "a described type"
                from geoh5py.groups import NoTypeGroup

                far = NoTypeGroup.create(other, name="far-away")  # the other workspace does not hold the container type yet
                parent = {"same-parent": None, "another-group": elsewhere, "other-workspace": other, "group-of-other-workspace": far, "itself": g, "own-subgroup": sub}[case["target"]]
                want = self._tree(g)
                target_ws = other if case["target"] in ("other-workspace", "group-of-other-workspace") else ws
                count = lambda w: len(w.groups) + len(w.objects) + len(w.data)
                n0 = count(target_ws)
                sys.setrecursionlimit(400)  # a copy that feeds on itself is stopped early
                try:
                    if case["op"] == "copy":
                        new = g.copy(parent=parent, copy_children=case["copy_children"])
                    else:
                        new = g.copy_from_extent(np.array([[-100.0, -100.0], [100.0, 100.0]]), parent=parent, copy_children=case["copy_children"])
                except RecursionError:
                    return f"{self._what(case)} does not end: the copy is copied into itself over and over (RecursionError; the workspace now holds {count(target_ws)} entities instead of {n0})"
                finally:
                    sys.setrecursionlimit(limit)
                if new is None:
                    if case["op"] == "extent" and not case["copy_children"]:
                        pass
                    return f"{self._what(case)} returned nothing"
                got = self._tree(new)
                exp = want if case["copy_children"] else (want[0], want[1], want[2], want[3], [])
                if case["op"] == "extent":
                    # a group in which nothing qualifies (an empty one) is not reproduced by a clip

                    def prune(t):
                        kids = [k if k[0] == "data" else prune(k) for k in t[4]]
                        kids = [k for k in kids if k is not None]
                        return None if ("Group(" in t[0] and not kids and t is not exp) else (t[0], t[1], t[2], t[3], kids)

                    exp = prune(exp)
                if got != exp:
                    return f"{self._what(case)}: the copy's tree is {got} but the group's tree at the time of the request was {exp}"
                grown = count(target_ws) - n0
                if grown != self._size(exp):
                    return f"{self._what(case)} created {grown} entities; the copied tree has {self._size(exp)}"
                if self._tree(g, skip=(new,)) != want:
                    return f"{self._what(case)} changed the source subtree"
            return None
        finally:
            sys.setrecursionlimit(limit)
            shutil.rmtree(d, ignore_errors=True)

    @staticmethod
    def _what(case):
        return f"{'copy' if case['op'] == 'copy' else 'copy_from_extent'}(copy_children={case['copy_children']}) of a group into {case['target']}"


CONTRACTS = CONTRACTS + [GroupSubtreeCopy]


class GroupCopyChildren(Contract):
    """Group.copy: the group itself is copied without children through the target parent's workspace;
    then each child present at the request is copied under the new group with the caller's options --
    also when the new group lands in the group's own child list (parent=self); without
    copy_children no child is copied."""
    target = "geoh5py/groups/base.py::Group.copy"
    props = ("C12",)
    lenient = True

    def cases(self):
        return [(where, kids) for where in ("elsewhere", "own-parent", "the-group-itself") for kids in (True, False)]

    def setup(self, ctx):
        from geoh5py.groups import Group

        where, kids = ctx.case
        me = Opaque("self", cls=Group)
        new_group = Opaque("new-group")
        ctx.path.assume(~new_group.none_var())
        clear, mask = Opaque("clear_cache"), Opaque("mask")

        def child(tag):
            ch = Opaque(tag)
            ch.attrs["copy"] = Opaque(tag + ".copy")
            ch.attrs["copy"].maybe_method = lambda I, a, kw, _t=tag: (I.event("child.copy", child=_t, kw=dict(kw)), Opaque(_t + "-copy"))[1]
            return ch

        me.attrs["children"] = PList([child("child-0"), child("child-1")])
        own_parent = Opaque("own-parent")
        me.attrs["parent"] = own_parent
        target = {"elsewhere": Opaque("target"), "own-parent": None, "the-group-itself": me}[where]
        if where == "elsewhere":
            ctx.path.assume(~target.none_var())
        tws = Opaque("target-workspace")

        def ctp(I, a, kw):
            I.event("copy_to_parent", entity=a[0], parent=a[1], kw=dict(kw))
            if where == "the-group-itself":
                nk = child("the-new-group")
                me.attrs["children"].items.append(nk)
            return new_group

        tws.attrs["copy_to_parent"] = Opaque("copy_to_parent")
        tws.attrs["copy_to_parent"].maybe_method = ctp
        for holder in (own_parent, me) + ((target,) if target is not None and target is not me else ()):
            holder.attrs["workspace"] = tws
        ctx.env.update(me=me, new_group=new_group, clear=clear, mask=mask, tgt=target if target is not None else own_parent)
        return [me], {"parent": target, "copy_children": kids, "clear_cache": clear, "mask": mask}

    def post(self, ctx, result):
        e = ctx.env
        where, kids = ctx.case
        ev = ctx.path.events
        made = [p for k, p in ev if k == "copy_to_parent"]
        ctx.oblige("the-group-is-copied-once-without-children-under-the-requested-parent",
                   len(made) == 1 and made[0]["entity"] is e["me"] and made[0]["parent"] is e["tgt"] and made[0]["kw"].get("copy_children") is False and result is e["new_group"],
                   note=f"{len(made)} copies; parent {made[0]['parent'] if made else None!r}; options {made[0]['kw'] if made else None}; result {result!r}")
        cc = [p for k, p in ev if k == "child.copy"]
        if not kids:
            ctx.oblige("without-copy_children-no-child-is-copied", not cc)
            return
        ctx.oblige("the-children-copied-are-those-present-at-the-request", [p["child"] for p in cc] == ["child-0", "child-1"],
                   note=f"copied: {[p['child'] for p in cc]} -- the new group was found among the children to copy (it is then copied into itself, and that copy into itself ...)")
        ctx.oblige("children-go-under-the-new-group-with-the-callers-options",
                   all(p["kw"].get("parent") is e["new_group"] and p["kw"].get("copy_children") is True and p["kw"].get("clear_cache") is e["clear"] and p["kw"].get("mask") is e["mask"] for p in cc))


CONTRACTS = CONTRACTS + [GroupCopyChildren]
