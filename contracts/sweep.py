"""C03 write-through completeness: a mechanical sweep over every (class, assignable attribute)
pair discovered reflectively from the imported package.  Each distinct setter body is executed
abstractly (every path) once; the coverage part of its obligations is then evaluated for every
concrete class that inherits it (the persisted group must really write that class's field)."""
from __future__ import annotations

import ast
import importlib
import inspect
import pkgutil

from contracts.setters import SetterEffects, run_setup
from pyvc import reflect
from pyvc.values import Opaque

# attribute families the property enumerates (claimed); everything else swept is informational
CLAIMED = {
    "name", "allow_delete", "allow_move", "allow_rename", "public", "visible", "partially_hidden", "modifiable", "hidden", "transparent_no_data",
    "origin", "rotation", "dip", "u_count", "v_count", "w_count", "u_cell_size", "v_cell_size", "w_cell_size", "vertical",
    "u_cell_delimiters", "v_cell_delimiters", "z_cell_delimiters", "collar", "surveys", "vertices", "cells", "octree_cells", "layers", "prisms",
    "values", "metadata", "options", "description", "units", "mapping", "number_of_bins", "color_map", "value_map",
    "contributors", "distance_unit", "ga_version", "version", "coordinate_reference_system", "cost", "end_of_hole", "planning",
}
# plumbing / caches / linking setters handled by other properties (C06, C12, C20) or not user data
SKIP = {
    "on_file", "uid", "parent", "workspace", "h5file", "repack", "entity_type", "concatenated_attributes", "concatenated_object_ids", "data", "index",
    "depths", "default_collocation_distance", "receivers", "transmitters", "base_stations", "current_electrodes", "potential_electrodes",
    "properties", "property_group_type", "association", "primitive_type", "image", "tag", "ab_cell_id", "tx_id_property", "map", "colour",
    "current_line_id", "parts", "visual_parameters", "file_name",
}
SKIP_CLASSES = {"PropertyGroup", "ConcatenatedPropertyGroup", "VisualParameters", "GeoImage", "ColorMap", "ReferenceValueMap"}
# EM-survey parameter setters all route through edit_em_metadata -> metadata (C20 covers them)
SKIP_MODULE_PARTS = ("surveys.electromagnetics", "surveys.direct_current")


def dispatch_table():
    """Which backing fields each update_attribute group writes, read from the real
    H5Writer.update_field dispatch (literal lists of its if/elif chain) on every run."""
    from geoh5py.io.h5_writer import H5Writer

    node = reflect.funcdef_of(H5Writer.update_field)
    lists = []
    singles = []
    for n in ast.walk(node):
        if isinstance(n, ast.Compare) and isinstance(n.left, ast.Name) and n.left.id == "attribute":
            if isinstance(n.ops[0], ast.In) and isinstance(n.comparators[0], ast.List):
                lists.append([e.value for e in n.comparators[0].elts if isinstance(e, ast.Constant)])
            elif isinstance(n.ops[0], ast.Eq) and isinstance(n.comparators[0], ast.Constant):
                singles.append(n.comparators[0].value)
    own = set()
    for lst in lists:
        own |= set(lst)
    own |= set(singles)
    return own


_OWN = None


def covered_by(cls, group):
    """Backing fields written by update_attribute(entity, group) for an entity of class cls."""
    global _OWN
    if _OWN is None:
        _OWN = dispatch_table()
    if group in _OWN:
        extra = {"cells": {"_cells", "_parts"}}.get(group, set())
        return {"_" + group} | extra
    # any other name: write_attributes -> every attribute of the class's _attribute_map
    amap = getattr(cls, "_attribute_map", {}) or {}
    return {"_" + a for a in amap.values()}


def discover():
    import geoh5py

    classes = set()
    for m in pkgutil.walk_packages(geoh5py.__path__, "geoh5py."):
        if any(m.name.startswith(p) for p in ("geoh5py.objects", "geoh5py.groups", "geoh5py.data", "geoh5py.shared.entity", "geoh5py.shared.concatenation", "geoh5py.workspace")):
            try:
                mod = importlib.import_module(m.name)
            except Exception:
                continue
            for _, c in inspect.getmembers(mod, inspect.isclass):
                if c.__module__.startswith("geoh5py"):
                    classes.add(c)
    out = {}
    for c in sorted(classes, key=lambda k: (k.__module__, k.__name__)):
        for name in dir(c):
            try:
                raw = inspect.getattr_static(c, name)
            except AttributeError:
                continue
            if isinstance(raw, property) and raw.fset is not None and reflect.is_repo_function(raw.fset):
                f = reflect.unwrap(raw.fset)
                key = (f.__code__.co_filename, f.__code__.co_firstlineno)
                owner = next(k for k in c.__mro__ if name in k.__dict__ and isinstance(k.__dict__[name], property))
                ent = out.setdefault(key, {"attr": name, "owner": owner, "func": f, "classes": []})
                if not inspect.isabstract(c):
                    ent["classes"].append(c)
    return out


class SweepSetter(SetterEffects):
    props = ("C03",)
    info = False
    concrete = ()

    def cases(self):
        return ["value"]

    def setup(self, ctx):
        cls = self.real_cls()
        me = run_setup(ctx, cls)
        # Workspace header setters: the workspace persists itself
        def io_call(I, a, kw):
            fn = a[0] if a else None
            I.event("persist", entity=me, group="attributes" if "write_attributes" in getattr(fn, "__name__", "") or "update_field" in getattr(fn, "__name__", "") else "?")
            return None

        ioc = Opaque("self._io_call")
        ioc.maybe_method = io_call
        me.attrs["_io_call"] = ioc
        ua = Opaque("self.update_attribute")
        ua.maybe_method = lambda I, a, kw: I.event("persist", entity=a[0] if a else None, group=a[1] if len(a) > 1 else kw.get("attribute"))
        if cls.__name__ == "Workspace":
            me.attrs["update_attribute"] = ua
        value = Opaque("value")
        ctx.path.assume(~value.none_var())
        # the entity is stored in an open workspace (precondition of the property)
        ws = ctx.env["ws"]
        ctx.path.assume(ws.truth_var())
        ctx.path.assume(~ws.none_var())
        ctx.env.update(value=value, cls=cls)
        return [me, value], {}

    def post(self, ctx, result):
        e = ctx.env
        me = e["me"]
        events = ctx.path.events
        field = "_" + self.attr
        writes = [i for i, (k, p) in enumerate(events) if (k == "setattr" and p["target"] == "self" and p["name"] == field) or (k == "mutate" and p["target"] == "self." + field)]
        persists = [(i, p["group"]) for i, (k, p) in enumerate(events) if k == "persist" and p["entity"] is me]
        info = self.info
        kind = "info" if info else "post"
        # a path that stores nothing must at least delegate (to another setter / the metadata) and persist
        delegated = [p for k, p in events if (k == "setattr" and p["target"] == "self") or (k == "mutate" and p["target"].startswith("self._"))]
        ctx.oblige("a-successful-assignment-stores-and-persists-the-value", bool(writes) or (bool(delegated) and bool(persists)), kind=kind, note=f"normal return without storing {field}")
        if not writes:
            # ... and what it stores directly on the way is not the backing field of some *other* attribute of the class
            # (delegation goes through that attribute's own setter, or through the metadata)
            strays = set()
            for sub in self.concrete_classes():
                fields = {"_" + a for a in (getattr(sub, "_attribute_map", {}) or {}).values()}
                strays |= {p["name"] for k, p in events if k == "setattr" and p["target"] == "self" and p["name"] in fields and p["name"] != field and ".fetch_" not in p.get("value_tag", "")}
            ctx.oblige("the-value-is-not-stored-in-another-attributes-field-instead", not strays, kind=kind, note=f"assigning {self.attr} stored {sorted(strays)} and never {field}")
            return
        last = writes[-1]
        after = [(j, g) for j, g in persists if j > last]
        ctx.oblige("stored-then-persisted", bool(after), kind=kind, note=f"{field} is stored after the last persistence call (or never persisted)")
        groups = sorted({g for _, g in after if isinstance(g, str)})
        for sub in self.concrete_classes():
            ok = any(field in covered_by(sub, g) for g in groups)
            ctx.oblige(f"persisted-group-writes-the-field[{sub.__name__}]", ok or not after, kind=kind, note=f"update_attribute groups {groups} do not write {field} for {sub.__name__}")

        # every other persistable backing field stored on the way (coupled attributes such as
        # dip -> vertical) must also be followed by a persistence call that writes it
        others = [(i, p["name"]) for i, (k, p) in enumerate(events) if k == "setattr" and p["target"] == "self" and p["name"] != field and p["name"].startswith("_") and ".fetch_" not in p.get("value_tag", "")]  # a lazy load from the file is not a store
        for sub in self.concrete_classes():
            amap_fields = {"_" + a for a in (getattr(sub, "_attribute_map", {}) or {}).values()} | {"_" + g for g in (_OWN or dispatch_table())}
            lost = sorted({n for i, n in others if n in amap_fields and not any(j > i and n in covered_by(sub, g) for j, g in persists if isinstance(g, str))})
            ctx.oblige(f"coupled-stored-fields-are-persisted-after-they-are-stored[{sub.__name__}]", not lost, kind=kind, note="stored after the last persistence call that writes them: " + ", ".join(lost))

    def concrete_classes(self):
        return [self.real_sub(p) for p in self.concrete]

    def real_sub(self, path):
        mod, _, name = path.rpartition(".")
        return getattr(importlib.import_module(mod), name)


CONTRACTS = []
INFO_CONTRACTS = []


def _build():
    reflect.ensure_repo_on_path()
    for key, ent in sorted(discover().items(), key=lambda kv: (kv[1]["owner"].__module__, kv[1]["owner"].__name__, kv[1]["attr"])):
        owner, attr = ent["owner"], ent["attr"]
        if attr in SKIP or owner.__name__ in SKIP_CLASSES or any(p in owner.__module__ for p in SKIP_MODULE_PARTS):
            continue
        rel = reflect.where(ent["func"]).rsplit(":", 1)[0]
        name = f"Sweep_{owner.__name__}_{attr}"
        concrete = tuple(f"{c.__module__}.{c.__name__}" for c in ent["classes"]) or (f"{owner.__module__}.{owner.__name__}",)
        k = type(name, (SweepSetter,), {
            "target": f"{rel}::{owner.__name__}.{attr}.fset", "cls_path": f"{owner.__module__}.{owner.__name__}", "attr": attr,
            "info": attr not in CLAIMED, "concrete": concrete, "__module__": __name__,
        })
        globals()[name] = k
        (INFO_CONTRACTS if k.info else CONTRACTS).append(k)


_build()
