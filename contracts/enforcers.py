"""Contracts for ui_json/enforcers.py and ui_json/parameters.py (C15 statelessness/atomicity)."""
from __future__ import annotations

import itertools

import z3

from pyvc.contracts import Contract, LoopSpec
from pyvc.core import RaiseSig, fresh_name
from pyvc.values import AbsObj, DynV, Obj, PList, SList, mk, sym, to_z3, zbool


def _pool(ctx):
    from geoh5py.shared.exceptions import BaseValidationError
    from geoh5py.ui_json.enforcers import EnforcerPool

    n = ctx.int("n_enforcers", 0)
    fails = z3.Function(fresh_name("fails"), z3.IntSort(), z3.BoolSort())
    cnt = z3.Function(fresh_name("cnt"), z3.IntSort(), z3.IntSort())
    i = z3.Int(fresh_name("i"))
    ctx.assume(cnt(0) == 0)
    ctx.assume(z3.ForAll([i], z3.Implies(z3.And(i >= 0, i < n.e), cnt(i + 1) == cnt(i) + z3.If(fails(i), 1, 0)), patterns=[cnt(i + 1)]))
    ctx.assume(z3.ForAll([i], z3.Implies(z3.And(i >= 0, i <= n.e), z3.And(cnt(i) >= 0, cnt(i) <= i)), patterns=[cnt(i)]))

    def enforcer(k):
        kz = to_z3(k, "int")

        def enforce(I, args, kw, _k=kz):
            # verdict of one rule is a function of (enforcer, value) only: fails(k)
            if I.path.branch(fails(_k), f"enforcer-fails@{I.cur_line}"):
                raise RaiseSig(BaseValidationError, "enforcer.enforce")
            return None

        return AbsObj("enforcer", {}, {"enforce": enforce})

    errors = PList([])
    pool = Obj(EnforcerPool, {"name": sym("name", "str"), "enforcers": SList(n, enforcer, "enforcers"), "_errors": errors})
    return pool, n, fails, cnt


def _enf_inv(ctx, st, k):
    e = ctx.env
    errs = e["pool"].fields["_errors"]
    from pyvc.models_py import seq_len

    ln = to_z3(seq_len(ctx.I, errs), "int")
    return [("errors-count-failing-prefix", ln == e["cnt"](k))]


def _enf_havoc(ctx, st, k):
    e = ctx.env
    ln = ctx.int("n_errors", 0)
    e["pool"].fields["_errors"] = SList(ln, lambda i: AbsObj("err", cls=e["Base"]), "_errors")


class PoolEnforce(Contract):
    target = "geoh5py/ui_json/enforcers.py::EnforcerPool.enforce"
    props = ("C15",)
    loops = {1: LoopSpec(_enf_inv, _enf_havoc, "for-enforcer")}
    has_native = True
    bounded_scope = "pools of 0-3 enforcers (type/value) x values making each pass or fail; sequences of 2 calls (exhaustive)"

    def setup(self, ctx):
        from geoh5py.shared.exceptions import BaseValidationError

        pool, n, fails, cnt = _pool(ctx)
        ctx.env.update(pool=pool, n=n, fails=fails, cnt=cnt, Base=BaseValidationError)
        return [pool, DynV(z3.Const(fresh_name("value"), __import__("pyvc.values", fromlist=["x"]).dyn_sort()))], {}

    def _errors_empty(self, ctx):
        from pyvc.models_py import seq_len

        return to_z3(seq_len(ctx.I, ctx.env["pool"].fields["_errors"]), "int") == 0

    def post(self, ctx, result):
        e = ctx.env
        ctx.oblige("accepts-iff-no-enforcer-fails", e["cnt"](e["n"].e) == 0)
        ctx.oblige("no-error-state-left-behind", self._errors_empty(ctx))

    def post_raises(self, ctx, sig):
        from geoh5py.shared.exceptions import BaseValidationError

        e = ctx.env
        ctx.oblige("raises-validation-error-only", issubclass(sig.exc_class, BaseValidationError), kind="post-exc")
        ctx.oblige("rejects-iff-some-enforcer-fails", e["cnt"](e["n"].e) > 0, kind="post-exc")
        ctx.oblige("no-error-state-left-behind", self._errors_empty(ctx), kind="post-exc")

    def native_cases(self, tier, rng):
        vals = [None, 1, "a", 2.5, "b"]
        pools = [{}, {"type": [str]}, {"value": ["a", 1]}, {"type": [str], "value": ["a", "c"]}, {"type": [int], "value": [2]}]
        for p in pools:
            for v1, v2 in itertools.product(vals, repeat=2):
                yield {"pool": p, "values": [v1, v2]}

    def native_check(self, case):
        from geoh5py.shared.exceptions import BaseValidationError
        from geoh5py.shared.utils import SetDict
        from geoh5py.ui_json.enforcers import EnforcerPool

        spec = {k: set(v) for k, v in case["pool"].items()}

        def fresh():
            return EnforcerPool.from_validations("p", SetDict(**spec))

        def verdict(pool, v):
            try:
                pool.enforce(v)
                return "ok"
            except BaseValidationError:
                return "rejected"

        pool = fresh()
        for v in case["values"]:
            got = verdict(pool, v)
            exp = verdict(fresh(), v)
            if got != exp:
                return f"verdict for {v!r} is {got} on a used pool but {exp} on a fresh one (history {case['values']}, pool {case['pool']})"
        return None


class ParameterValueSet(Contract):
    target = "geoh5py/ui_json/parameters.py::Parameter.value.fset"
    props = ("C15",)
    has_native = True
    bounded_scope = "String/Integer/Float/Bool/ValueRestricted parameters x (valid, then invalid incl. unhashable) assignments"

    def setup(self, ctx):
        from geoh5py.shared.exceptions import BaseValidationError
        from geoh5py.ui_json.parameters import Parameter

        ok = z3.Bool(fresh_name("new_value_valid"))

        def enforce(I, args, kw):
            if I.path.branch(ok, "pool-accepts"):
                return None
            # an enforcer refuses with a validation error or, for values it cannot even inspect
            # (unhashable choice, non-entity object), with a plain TypeError / AttributeError
            exc = (BaseValidationError, TypeError, AttributeError)[I.path.choose(3, "refusal-kind")]
            raise RaiseSig(exc, "EnforcerPool.enforce")

        old = sym("old", "ref")
        new = sym("new", "ref")
        ctx.assume(old.e != new.e)
        par = Obj(Parameter, {"name": sym("name", "str"), "_value": old, "_enforcers": AbsObj("pool", {}, {"enforce": enforce})})
        ctx.env.update(par=par, old=old, new=new, ok=ok)
        return [par, new], {}

    def post(self, ctx, result):
        e = ctx.env
        ctx.oblige("accepted-value-stored", to_z3(e["par"].fields["_value"]) == e["new"].e)
        ctx.oblige("accepted-only-if-valid", e["ok"])

    def post_raises(self, ctx, sig):
        e = ctx.env
        ctx.oblige("rejected-only-if-invalid", z3.Not(e["ok"]), kind="post-exc")
        ctx.oblige("rejected-value-leaves-stored-value-unchanged", to_z3(e["par"].fields["_value"]) == e["old"].e, kind="post-exc")

    def native_cases(self, tier, rng):
        yield {"cls": "StringParameter", "good": "a", "bad": 3}
        yield {"cls": "IntegerParameter", "good": 4, "bad": "x"}
        yield {"cls": "FloatParameter", "good": 4.5, "bad": "x"}
        yield {"cls": "BoolParameter", "good": True, "bad": "x"}
        yield {"cls": "ValueRestrictedParameter", "good": "a", "bad": ["a"], "args": {"restrictions": ["a", "b"]}}
        yield {"cls": "ValueRestrictedParameter", "good": "a", "bad": {"k": 1}, "args": {"restrictions": ["a", "b"]}}
        yield {"cls": "ValueRestrictedParameter", "good": "a", "bad": "zzz", "args": {"restrictions": ["a", "b"]}}

    def native_check(self, case):
        from geoh5py.shared.exceptions import BaseValidationError
        from geoh5py.ui_json import parameters

        args = case.get("args") or {}
        if "restrictions" in args:
            par = getattr(parameters, case["cls"])("p", args["restrictions"], case["good"])
        else:
            par = getattr(parameters, case["cls"])("p", case["good"])
        try:
            par.value = case["bad"]
            return f"invalid value {case['bad']!r} accepted"
        except Exception:  # the refusal may be a validation error or a plain TypeError / AttributeError
            pass
        if par.value != case["good"] or type(par.value) is not type(case["good"]):
            return f"rejected value {case['bad']!r} was stored (value is now {par.value!r}, was {case['good']!r})"
        return None


CONTRACTS = [PoolEnforce, ParameterValueSet]


class ObjectDataRule(Contract):
    """RequiredObjectDataEnforcer.rule: true exactly when every (object, data) pair of the
    validations has its data among the children of *its own* object."""
    target = "geoh5py/ui_json/enforcers.py::RequiredObjectDataEnforcer.rule"
    props = ("C15",)
    bounded_scope = "1-3 (object, data) pairs, each object with 0-2 children; identifiers symbolic (exhaustive over these shapes)"

    def cases(self):
        import itertools

        return [c for n in (1, 2, 3) for c in itertools.product((0, 1, 2), repeat=n)]

    def setup(self, ctx):
        from geoh5py.ui_json.enforcers import RequiredObjectDataEnforcer
        from pyvc.values import PDict, PList

        value = PDict()
        pairs, spec = [], []
        for i, nkids in enumerate(ctx.case):
            kids = [AbsObj(f"child{i}_{j}", {"uid": sym(f"kid{i}_{j}", "uid")}) for j in range(nkids)]
            parent = AbsObj(f"object{i}", {"children": PList(kids)})
            data = AbsObj(f"data{i}", {"uid": sym(f"data{i}", "uid")})
            value.items[f"obj{i}"] = PDict({"value": parent})
            value.items[f"dat{i}"] = PDict({"value": data})
            pairs.append((f"obj{i}", f"dat{i}"))
            spec.append((data.attrs["uid"], [k.attrs["uid"] for k in kids]))
        me = Obj(RequiredObjectDataEnforcer, {"_validations": PList(pairs), "validations": PList(pairs)})
        ctx.env.update(spec=spec)
        return [me, value], {}

    def post(self, ctx, result):
        want = z3.And(*[z3.Or(*[d.e == k.e for k in kids]) if kids else z3.BoolVal(False) for d, kids in ctx.env["spec"]])
        ctx.oblige("true-iff-every-data-is-a-child-of-its-own-object", zbool(ctx.I.truth(result)) == want,
                   note="a data that belongs to another form's object is accepted (or a rightful one refused)")


CONTRACTS = CONTRACTS + [ObjectDataRule]


class UiJsonAssigned(Contract):
    """Statelessness of InputFile validation across forms: assigning a ui.json (or None) drops the
    validators built for the previous form, so the next verdict is computed from the new rule table."""
    target = "geoh5py/ui_json/input_file.py::InputFile.ui_json.fset"
    props = ("C15",)
    lenient = True

    def cases(self):
        return ["new-form", "cleared"]

    def setup(self, ctx):
        from geoh5py.ui_json.input_file import InputFile
        from pyvc.values import Opaque, PDict

        me = Opaque("self", cls=InputFile)
        me.attrs["_validators"] = Opaque("validators-of-the-previous-form")
        me.attrs["_validations"] = None
        me.attrs["_ui_json"] = Opaque("previous-form")
        nm = Opaque("numify")
        nm.maybe_method = lambda I, a, kw: a[0]
        me.attrs["numify"] = nm
        value = PDict({"title": "t"}) if ctx.case == "new-form" else None
        ctx.env.update(me=me)
        return [me, value], {}

    def post(self, ctx, result):
        me = ctx.env["me"]
        ctx.oblige("validators-of-the-previous-form-are-dropped", me.attrs.get("_validators", "unset") is None,
                   note="values of the new form would be judged with the previous form's rules")
        if ctx.case == "cleared":
            ctx.oblige("no-form-no-rules", me.attrs.get("_ui_json", "unset") is None and me.attrs.get("_validations", "unset") is None)


CONTRACTS = CONTRACTS + [UiJsonAssigned]


class FormMembersAtomic(Contract):
    """A refused assignment to a standard member of a form parameter (label, optional, enabled, group,
    dependency, ...; directly or through register) leaves the form as it was: the dictionary that is
    written, the list of active members, membership tests and the rules derived from the form."""
    target = "geoh5py/ui_json/descriptors.py::FormValueAccess.__set__"
    variant = "native"
    symbolic = False
    has_native = True
    props = ("C15",)
    bounded_scope = "every FormParameter subclass constructible from simple arguments x every standard member x one value of a wrong type x {attribute assignment, register}; members set before and members never set (exhaustive over the listed combinations)"

    BAD = {str: 1, bool: "yes", type(None): None}

    @staticmethod
    def _forms():
        from geoh5py.ui_json import forms as F

        return {
            "string": lambda **kw: F.StringFormParameter("p", value="abc", **{"label": "P", **kw}),
            "bool": lambda **kw: F.BoolFormParameter("p", value=True, **{"label": "P", **kw}),
            "integer": lambda **kw: F.IntegerFormParameter("p", value=3, **{"label": "P", **kw}),
            "float": lambda **kw: F.FloatFormParameter("p", value=1.5, **{"label": "P", **kw}),
            "choice": lambda **kw: F.ChoiceStringFormParameter("p", choice_list=["a", "b"], value="a", **{"label": "P", **kw}),
            "file": lambda **kw: F.FileFormParameter("p", value="a.txt", **{"label": "P", **kw}),
        }

    def native_cases(self, tier, rng):
        for kind in self._forms():
            for preset in (False, True):
                for how in ("assign", "register"):
                    yield {"kind": kind, "preset": preset, "how": how}

    @staticmethod
    def _state(form):
        return {"form": form.form(), "camel": form.form(use_camel=True), "active": list(form.active), "uijson_validations": dict(form.uijson_validations),
                "dynamic_validations": dict(form.dynamic_validations), "contains": {m: (m in form) for m in form.valid_members}}

    def native_check(self, case):
        from geoh5py.ui_json.parameters import BoolParameter, StringParameter, ValueRestrictedParameter

        make = self._forms()[case["kind"]]
        probe = make()
        tried = 0
        for member in probe.valid_members:
            if member == "value":
                continue
            par = getattr(probe, "_" + member)
            if isinstance(par, ValueRestrictedParameter):
                good, bad = "disabled", "sometimes"
            elif isinstance(par, BoolParameter):
                good, bad = True, "yes"
            elif isinstance(par, StringParameter):
                good, bad = "text", 7
            else:
                continue
            form = make(**({member: good} if case["preset"] else {}))
            before = self._state(form)
            try:
                if case["how"] == "assign":
                    setattr(form, member, bad)
                else:
                    form.register({member: bad})
            except Exception:
                tried += 1
                after = self._state(form)
                if after != before:
                    diff = [k for k in before if before[k] != after[k]]
                    return f"{type(form).__name__}: the refused {case['how']} {member} = {bad!r} changed {diff}: {[(before[k], after[k]) for k in diff][:2]} ({case})"
        if not tried:
            return f"harness: no assignment was refused for {case} (vacuous)"
        return None


CONTRACTS = CONTRACTS + [FormMembersAtomic]
