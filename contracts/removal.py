"""C05: deletion removes exactly the entity, its descendants and all references to them."""
from __future__ import annotations

import itertools

import z3

from contracts.workspace_io import io_call_summary, ws_obj
from pyvc.contracts import Contract
from pyvc.core import RaiseSig, fresh_name
from pyvc.interp import EngineCallable
from pyvc.values import AbsObj, Obj, Opaque, PDict, PList, mk, sym, to_z3, zbool


def _classes():
    from geoh5py.data import FloatData
    from geoh5py.groups import ContainerGroup, PropertyGroup
    from geoh5py.objects import Points
    from geoh5py.shared.concatenation.data import ConcatenatedData
    from geoh5py.shared.concatenation.drillhole import ConcatenatedDrillhole
    from geoh5py.shared.concatenation.property_group import ConcatenatedPropertyGroup

    return {"points": Points, "group": ContainerGroup, "data": FloatData, "property-group": PropertyGroup, "concatenated-data": ConcatenatedData,
            "concatenated-hole": ConcatenatedDrillhole, "concatenated-property-group": ConcatenatedPropertyGroup}


class RemoveEntityGuard(Contract):
    """A request to remove an entity whose delete permission is off is refused before anything
    else happens, whatever the kind of entity."""
    target = "geoh5py/workspace/workspace.py::Workspace.remove_entity"
    props = ("C05",)
    lenient = True

    def cases(self):
        # the flag as set in Python (bool) and as it comes back from a file (a numpy integer)
        return [(k, allow) for k in _classes() for allow in (False, True, "int8-0", "int8-1")]

    def setup(self, ctx):
        kind, allow = ctx.case
        if isinstance(allow, str):
            import numpy as _np

            allow = _np.int8(int(allow[-1]))
        cls = _classes()[kind]
        me = ws_obj(ctx, "open", "r+")
        me.fields["_io_call"] = io_call_summary(ctx)
        me.fields["remove_recursively"] = EngineCallable(lambda I, a, kw: I.event("remove_recursively", entity=a[0]), "remove_recursively")
        me.fields["remove_none_referents"] = EngineCallable(lambda I, a, kw: I.event("remove_none_referents"), "remove_none_referents")
        me.fields["_types"] = Opaque("types")
        ent = Opaque("entity", cls=cls)
        ent.attrs["allow_delete"] = allow
        ent.attrs["uid"] = Opaque("uid")
        conc = Opaque("concatenator")
        conc.attrs["remove_entity"] = Opaque("concatenator.remove_entity")
        conc.attrs["remove_entity"].maybe_method = lambda I, a, kw: I.event("concatenator.remove_entity", entity=a[0])
        conc.attrs["remove_children"] = Opaque("concatenator.remove_children")
        conc.attrs["remove_children"].maybe_method = lambda I, a, kw: I.event("concatenator.remove_children", children=a[0])
        ent.attrs["concatenator"] = conc
        parent = Opaque("parent")
        parent.attrs["remove_children"] = Opaque("parent.remove_children")
        parent.attrs["remove_children"].maybe_method = lambda I, a, kw: I.event("parent.remove_children", children=a[0])
        ent.attrs["parent"] = parent
        ctx.env.update(ent=ent, allow=allow, kind=kind)
        return [me, ent], {}

    def post(self, ctx, result):
        e = ctx.env
        ev = [k for k, p in ctx.path.events]
        ctx.oblige("a-protected-entity-is-never-removed", bool(e["allow"]) is True, note=f"delete permission {e['allow']!r} ({type(e['allow']).__name__})")
        acted = [k for k in ev if k in ("remove_recursively", "concatenator.remove_entity", "concatenator.remove_children", "parent.remove_children", "io")]
        ctx.oblige("a-removal-request-acts-on-the-entity", bool(acted))
        # Concatenator.remove_entity edits the stored records only; the child list is edited by the holder's remove_children
        # (the hole for data and property groups, the drillhole group for holes) -- the request has to enter there
        want = {"concatenated-data": "parent.remove_children", "concatenated-property-group": "parent.remove_children", "concatenated-hole": "concatenator.remove_children"}.get(e["kind"], "remove_recursively")
        if bool(e["allow"]) is True:
            ctx.oblige("the-removal-enters-through-the-holder-of-the-child-list", bool(acted) and acted[0] == want, note=f"a {e['kind']} was removed through {acted[:1]}; its parent's child list is edited by {want}")

    def post_raises(self, ctx, sig):
        e = ctx.env
        ctx.oblige("refused-only-when-the-delete-permission-is-off", bool(e["allow"]) is False and sig.exc_class is UserWarning, kind="post-exc")
        ctx.oblige("a-refused-removal-changes-nothing", not ctx.path.events, kind="post-exc", note="; ".join(k for k, p in ctx.path.events))


class WorkspaceRemoveChildren(Contract):
    """Each child is unlinked from the container of its own kind."""
    target = "geoh5py/workspace/workspace.py::Workspace.remove_children"
    props = ("C05", "C02")
    lenient = True

    def cases(self):
        kinds = ("points", "group", "data", "property-group", "property-group-of-another-object")
        return [c for n in (1, 2, 3) for c in itertools.product(kinds, repeat=n) if n < 3 or "property-group-of-another-object" not in c or c.count("property-group-of-another-object") == 1]

    def setup(self, ctx):
        me = ws_obj(ctx, "open", "r+")
        me.fields["_io_call"] = io_call_summary(ctx)
        kids = []
        parent = Opaque("parent")
        elsewhere = Opaque("another-object")
        for o_ in (parent, elsewhere):
            o_.distinct = True
        for i, kind in enumerate(ctx.case):
            k = Opaque(f"child{i}", cls=_classes()["property-group" if kind.startswith("property-group") else kind])
            k.attrs["uid"] = Opaque(f"uid{i}")
            k.attrs["parent"] = elsewhere if kind == "property-group-of-another-object" else parent
            kids.append(k)
        ctx.env.update(kids=kids, parent=parent)
        return [me, parent, PList(kids)], {}

    def post(self, ctx, result):
        e = ctx.env
        ios = [p for k, p in ctx.path.events if k == "io"]
        foreign = [kid for kind, kid in zip(ctx.case, e["kids"]) if kind == "property-group-of-another-object"]
        # a property group lives on its own object: one that belongs to another object is not a child of this parent,
        # and nothing of it is touched (the other kinds are unlinked *under this parent*, a no-op when they are not there)
        ctx.oblige("a-property-group-of-another-object-is-left-alone", not any(any(a is f for a in io["args"]) for io in ios for f in foreign),
                   note="the group was deleted from the stored node of the object that owns it although it was asked to leave another parent")
        mine = [(kind, kid) for kind, kid in zip(ctx.case, e["kids"]) if kind != "property-group-of-another-object"]
        ctx.oblige("one-file-operation-per-child-in-order", len(ios) == len(mine))
        if len(ios) != len(mine):
            return
        want = {"points": "Objects", "group": "Groups", "data": "Data"}
        for i, ((kind, kid), io) in enumerate(zip(mine, ios)):
            if kind == "property-group":
                ctx.oblige(f"child{i}-property-group-is-removed-from-its-object", io["fun"] == "add_or_update_property_group" and io["args"][0] is kid and io["kw"].get("remove") is True)
            else:
                ctx.oblige(f"child{i}-is-unlinked-from-the-container-of-its-own-kind", io["fun"] == "remove_child" and io["args"][0] is kid.attrs["uid"] and io["args"][1] == want[kind] and io["args"][2] is e["parent"], note=f"{kind} unlinked with {io['args'][1]!r}")


class RemoveRecursively(Contract):
    """Every child of the removed entity is removed (exactly once), then the entity is unlinked;
    the child list is live: removing a child takes it out of the list that is being walked."""
    target = "geoh5py/workspace/workspace.py::Workspace.remove_recursively"
    props = ("C05", "C01", "C02")
    lenient = True
    bounded_scope = "entities with 0-5 children (the list is concrete, its elements abstract); exhaustive in the number of children up to 5"

    def cases(self):
        return list(range(0, 6))

    def setup(self, ctx):
        me = ws_obj(ctx, "open", "r+")
        n = ctx.case
        kids = [Opaque(f"child{i}") for i in range(n)]
        children = PList(list(kids))
        ent = Opaque("entity")
        ent.attrs["children"] = children

        def remove_entity(I, a, kw):
            I.event("remove_entity", entity=a[0])
            # what Workspace.remove_entity does to the list: the child's parent drops it
            if a[0] in children.items:
                children.items.remove(a[0])
            return None

        me.fields["remove_entity"] = EngineCallable(remove_entity, "remove_entity")
        parent = Opaque("parent")
        parent.attrs["remove_children"] = Opaque("parent.remove_children")
        parent.attrs["remove_children"].maybe_method = lambda I, a, kw: I.event("parent.remove_children", children=a[0])
        ent.attrs["parent"] = parent
        ctx.env.update(kids=kids, ent=ent)
        return [me, ent], {}

    def post(self, ctx, result):
        e = ctx.env
        removed = [p["entity"] for k, p in ctx.path.events if k == "remove_entity"]
        for i, kid in enumerate(e["kids"]):
            ctx.oblige(f"child{i}-is-removed-exactly-once", sum(1 for r in removed if r is kid) == 1)
        unl = [p for k, p in ctx.path.events if k == "parent.remove_children"]
        ok = len(unl) == 1 and isinstance(unl[0]["children"], PList) and len(unl[0]["children"].items) == 1 and unl[0]["children"].items[0] is e["ent"]
        ctx.oblige("the-entity-is-unlinked-from-its-parent-after-its-children", ok and ctx.path.events[-1][0] == "parent.remove_children")


class RemoveDataFromGroups(Contract):
    """Every property group of the object is scrubbed; groups that become empty disappear from
    the list while it is walked."""
    target = "geoh5py/objects/object_base.py::ObjectBase.remove_data_from_groups"
    props = ("C05", "C02")
    lenient = True
    bounded_scope = "objects with 0-4 property groups, each either emptied by the removal (and dropped from the live list) or not; exhaustive up to 4 groups"

    def cases(self):
        return [c for n in range(0, 5) for c in itertools.product((True, False), repeat=n)]

    def setup(self, ctx):
        from geoh5py.objects import Points

        me = Opaque("self", cls=Points)
        groups = PList([])
        pgs = []
        for i, empties in enumerate(ctx.case):
            pg = Opaque(f"pg{i}")

            def remove_properties(I, a, kw, _pg=pg, _empties=empties):
                I.event("scrub", group=_pg, data=a[0])
                if _empties and _pg in groups.items:
                    groups.items.remove(_pg)  # PropertyGroup.remove_properties -> remove_entity -> remove_property_group
                return None

            pg.attrs["remove_properties"] = Opaque(f"pg{i}.remove_properties")
            pg.attrs["remove_properties"].maybe_method = remove_properties
            pgs.append(pg)
        groups.items = list(pgs)
        me.attrs["_property_groups"] = groups
        data = Opaque("data")
        ctx.env.update(pgs=pgs, data=data)
        return [me, data], {}

    def post(self, ctx, result):
        e = ctx.env
        scrubbed = [p["group"] for k, p in ctx.path.events if k == "scrub"]
        for i, pg in enumerate(e["pgs"]):
            ctx.oblige(f"group{i}-no-longer-lists-the-removed-data", sum(1 for g in scrubbed if g is pg) == 1)


class ConcatRemoveChildren(Contract):
    """DrillholeGroup.remove_children: every listed hole that the group holds is removed from the
    concatenated storage and leaves the group's child list; everything else stays."""
    target = "geoh5py/shared/concatenation/concatenator.py::Concatenator.remove_children"
    props = ("C05", "C04")
    lenient = True
    bounded_scope = "groups of 3 holes, requests naming 1-2 held holes and optionally a stranger (concrete list, abstract elements)"

    def cases(self):
        return [((0,), False), ((1,), True), ((0, 2), False), ((2, 1), True), ((), True), ("plain-data", False)]

    def setup(self, ctx):
        from contracts.concat import concatenator_class

        from geoh5py.data import CommentsData
        from geoh5py.shared.concatenation.drillhole import ConcatenatedDrillhole

        idx, stranger = ctx.case
        plain = idx == "plain-data"
        if plain:
            idx = (0,)
        me = Opaque("self", cls=concatenator_class())
        holes = [Opaque(f"hole{i}", cls=ConcatenatedDrillhole) for i in range(3)]
        note = Opaque("comments-of-the-group", cls=CommentsData)
        for h in holes + [note]:
            h.distinct = True
        kept = PList(list(holes) + [note])
        me.attrs["_children"] = kept
        wsrc = Opaque("workspace.remove_children")
        wsrc.maybe_method = lambda I, a, kw: I.event("unlink", parent=a[0], children=a[1])
        wsp = Opaque("workspace")
        wsp.attrs["remove_children"] = wsrc
        me.attrs["workspace"] = wsp
        ctx.env.update(note=note, plain=plain)
        rm = Opaque("remove_entity")
        rm.maybe_method = lambda I, a, kw: I.event("remove_entity", entity=a[0], listed=[x for x in kept.items])
        me.attrs["remove_entity"] = rm
        req = [holes[i] for i in idx] + ([note] if plain else [])
        if stranger:
            s_ = Opaque("stranger")
            s_.distinct = True
            req.append(s_)
        ctx.env.update(holes=holes, kept=kept, idx=idx, me=me)
        return [me, PList(req)], {}

    def post(self, ctx, result):
        e = ctx.env
        removed = [p["entity"] for k, p in ctx.path.events if k == "remove_entity"]
        for i, h in enumerate(e["holes"]):
            if i in e["idx"]:
                ctx.oblige(f"hole{i}-is-removed-from-the-storage-once", sum(1 for r in removed if r is h) == 1)
                ctx.oblige(f"hole{i}-leaves-the-groups-child-list", not any(x is h for x in list(getattr(e["me"].attrs["_children"], "items", e["me"].attrs["_children"]))), note="group.children still yields the removed hole")
            else:
                ctx.oblige(f"hole{i}-is-kept", any(x is h for x in list(getattr(e["me"].attrs["_children"], "items", e["me"].attrs["_children"]))) and not any(r is h for r in removed))
        ctx.oblige("nothing-the-group-does-not-hold-is-removed", all(any(r is h for h in e["holes"]) for r in removed))
        # plain data held by the group itself (comments, files) are not in the concatenated storage: they are unlinked in
        # the file like the children of any group, and leave the child list
        kept_items = list(getattr(e["me"].attrs["_children"], "items", e["me"].attrs["_children"]))
        unl = [p for k, p in ctx.path.events if k == "unlink"]
        if e["plain"]:
            ctx.oblige("plain-data-of-the-group-is-unlinked-in-the-file", len(unl) == 1 and unl[0]["parent"] is e["me"] and any(x is e["note"] for x in getattr(unl[0]["children"], "items", []) or []),
                       note="the group's own comments / files leave the in-memory list but stay linked in the file: they are back after a re-open")
            ctx.oblige("plain-data-of-the-group-leaves-the-child-list", not any(x is e["note"] for x in kept_items))
        else:
            ctx.oblige("plain-data-that-was-not-named-stays", any(x is e["note"] for x in kept_items) and not unl)


class ConcatRemoveHole(Contract):
    """Concatenator.remove_entity on a drillhole: its children go first, then the rows of its own
    arrays (surveys, trace, property-group ids), its identifier leaves the group's object list and
    its attribute record is dropped -- nothing of the hole stays in the concatenated storage."""
    target = "geoh5py/shared/concatenation/concatenator.py::Concatenator.remove_entity"
    variant = "hole"
    props = ("C05", "C04")
    lenient = True

    def setup(self, ctx):
        import uuid

        from contracts.concat import concatenator_class
        from geoh5py.shared.concatenation.drillhole import ConcatenatedDrillhole

        me = Opaque("self", cls=concatenator_class())
        hole = Opaque("hole", cls=ConcatenatedDrillhole)
        hole.attrs["uid"] = uuid.UUID(int=7)
        key = ("{" + str(hole.attrs["uid"]) + "}").encode()
        kids = Opaque("hole.children")
        hole.attrs["children"] = kids
        for f_ in ("_surveys", "_trace", "_property_groups"):
            hole.attrs[f_] = Opaque("hole." + f_)
        hole.attrs["parent"] = me
        rc = Opaque("hole.remove_children")
        rc.maybe_method = lambda I, a, kw: I.event("children-removed", what=a[0])
        hole.attrs["remove_children"] = rc
        ua = Opaque("update_array_attribute")
        ua.maybe_method = lambda I, a, kw: I.event("array", entity=a[0], field=a[1], remove=kw.get("remove", a[2] if len(a) > 2 else False))
        me.attrs["update_array_attribute"] = ua
        ids = PList([b"{other-1}", key, b"{other-2}"])
        me.attrs["concatenated_object_ids"] = ids
        record = PDict({"ID": "{" + str(hole.attrs["uid"]) + "}"})
        other = PDict({"ID": "{other}"})
        attrs = PDict({"Attributes": PList([other, record])})
        me.attrs["concatenated_attributes"] = attrs
        keys = PList(["{other}", "{" + str(hole.attrs["uid"]) + "}"])
        me.attrs["attributes_keys"] = keys
        gca = Opaque("get_concatenated_attributes")
        gca.maybe_method = lambda I, a, kw: record
        me.attrs["get_concatenated_attributes"] = gca
        ws = Opaque("workspace")
        me.attrs["workspace"] = ws
        ctx.env.update(me=me, hole=hole, key=key, ids=ids, attrs=attrs, keys=keys, record=record, other=other)
        return [me, hole], {}

    def post(self, ctx, result):
        e = ctx.env
        ev = ctx.path.events
        kids = [i for i, (k, p) in enumerate(ev) if k == "children-removed"]
        arrays = {p["field"]: (i, p) for i, (k, p) in enumerate(ev) if k == "array" and p["entity"] is e["hole"]}
        ctx.oblige("the-holes-children-are-removed-first", len(kids) == 1 and all(i > kids[0] for i, _ in arrays.values()))
        for field in ("surveys", "trace", "property_groups"):
            ok = field in arrays and arrays[field][1]["remove"] is True
            ctx.oblige(f"the-rows-of-the-holes-own-{field}-are-removed", ok, note=f"the hole's {field} rows stay in the concatenated arrays (stale entries)")
        ids = e["me"].attrs.get("concatenated_object_ids")
        listed = ids.items if isinstance(ids, PList) else list(ids or [])
        ctx.oblige("the-hole-leaves-the-groups-object-list", e["key"] not in listed and b"{other-1}" in listed and b"{other-2}" in listed)
        ctx.oblige("the-holes-attribute-record-is-dropped", e["record"] not in e["attrs"].items["Attributes"].items and e["other"] in e["attrs"].items["Attributes"].items)
        ctx.oblige("the-holes-key-is-dropped", ("{" + str(e["hole"].attrs["uid"]) + "}") not in e["keys"].items and "{other}" in e["keys"].items)


CONTRACTS = [RemoveEntityGuard, WorkspaceRemoveChildren, RemoveRecursively, RemoveDataFromGroups, ConcatRemoveChildren, ConcatRemoveHole]


class ConcatAttributesPending(Contract):
    """Attribute edits of concatenated entities live in the group's attribute list, which reaches
    the file when the workspace closes -- provided the edit raises the workspace's pending flag
    (`repack`); Workspace.close flushes every drillhole group when the flag is up (CloseFlushes)."""
    target = "geoh5py/shared/concatenation/concatenator.py::Concatenator.update_concatenated_attributes"
    props = ("C03", "C04", "C11")
    lenient = True

    def cases(self):
        return ["hole", "data"]

    def setup(self, ctx):
        from contracts.concat import concatenator_class
        from geoh5py.shared.concatenation.data import ConcatenatedData
        from geoh5py.shared.concatenation.drillhole import ConcatenatedDrillhole

        me = Opaque("self", cls=concatenator_class())
        ent = Opaque("entity", cls=ConcatenatedDrillhole if ctx.case == "hole" else ConcatenatedData)
        ent.attrs["attribute_map"] = PDict({"Name": "name", "Planning": "planning"})
        ent.attrs["name"] = "renamed"
        ent.attrs["planning"] = "Ongoing"
        ent.attrs["uid"] = Opaque("uid")
        et = Opaque("entity_type")
        et.attrs["uid"] = Opaque("type-uid")
        ent.attrs["entity_type"] = et
        record = PDict({"Name": "old", "Planning": "Default"})
        gca = Opaque("get_concatenated_attributes")
        gca.maybe_method = lambda I, a, kw: record
        me.attrs["get_concatenated_attributes"] = gca
        ws = Opaque("workspace")
        ws.attrs["repack"] = False
        me.attrs["workspace"] = ws
        ctx.env.update(ws=ws, record=record)
        return [me, ent], {}

    def post(self, ctx, result):
        e = ctx.env
        ctx.oblige("the-new-values-are-in-the-attribute-record", e["record"].items.get("Name") == "renamed" and e["record"].items.get("Planning") == "Ongoing")
        ctx.oblige("the-edit-is-marked-pending-so-that-close-writes-it", e["ws"].attrs.get("repack") is True,
                   note="the attribute record changed in memory but nothing tells close() to write it")


CONTRACTS = CONTRACTS + [ConcatAttributesPending]


class ConcatUpdateDispatch(Contract):
    """Concatenator.update_attributes is the single door through which an edit of a stored
    concatenated entity reaches the group: 'attributes' goes to the attribute record, every other
    label is an array field and goes to update_array_attribute -- for a drillhole under its own
    label (surveys, trace, property_groups, ...), for data under the data's name."""
    target = "geoh5py/shared/concatenation/concatenator.py::Concatenator.update_attributes"
    props = ("C03", "C04")
    lenient = True

    LABELS = ("attributes", "surveys", "trace", "property_groups", "values", "depth_", "from-to")

    def cases(self):
        return [(kind, lab) for kind in ("hole", "data") for lab in self.LABELS if not (kind == "data" and lab in ("surveys", "trace", "property_groups"))]

    def setup(self, ctx):
        from contracts.concat import concatenator_class
        from geoh5py.groups import PropertyGroup
        from geoh5py.shared.concatenation.data import ConcatenatedData
        from geoh5py.shared.concatenation.drillhole import ConcatenatedDrillhole

        kind, lab = ctx.case
        me = Opaque("self", cls=concatenator_class())
        ent = Opaque("entity", cls=ConcatenatedDrillhole if kind == "hole" else ConcatenatedData)
        ent.attrs["name"] = "Au"
        ent.attrs["uid"] = Opaque("uid")
        pg = Opaque("property-group", cls=PropertyGroup)
        pg.attrs["uid"] = Opaque("pg-uid")
        ent.attrs["property_groups"] = PList([pg]) if kind == "hole" else None
        me.attrs["property_group_ids"] = None
        for name in ("update_concatenated_attributes", "update_array_attribute", "add_save_concatenated"):
            me.attrs[name] = Opaque(name)
            me.attrs[name].maybe_method = (lambda I, a, kw, _n=name: I.event(_n, args=list(a), kw=dict(kw)))
        ctx.env.update(ent=ent, pg=pg)
        return [me, ent, lab], {}

    def post(self, ctx, result):
        e = ctx.env
        kind, lab = ctx.case
        ev = ctx.path.events
        rec = [p for k, p in ev if k == "update_concatenated_attributes"]
        arr = [p for k, p in ev if k == "update_array_attribute"]
        if lab == "attributes":
            ctx.oblige("an-attribute-edit-goes-to-the-attribute-record", len(rec) == 1 and rec[0]["args"][0] is e["ent"] and not arr)
            return
        want = "Au" if kind == "data" else lab
        ctx.oblige(f"an-array-field-edit-is-written[{kind}:{lab}]", len(arr) == 1 and arr[0]["args"][0] is e["ent"] and (arr[0]["args"][1:] + list(arr[0]["kw"].values()))[:1] == [want],
                   note=f"update_attributes({kind}, {lab!r}) did not call update_array_attribute(entity, {want!r})")
        if lab == "property_groups":
            saved = [p for k, p in ev if k == "add_save_concatenated"]
            ctx.oblige("each-property-group-is-registered-with-the-drillhole-group", len(saved) == 1 and saved[0]["args"][0] is e["pg"])


CONTRACTS = CONTRACTS + [ConcatUpdateDispatch]


class ObjectRemoveChildren(Contract):
    """ObjectBase.remove_children: every listed entity the object holds leaves its child list and,
    when it is data, every one of the object's property groups -- also when the entity's own parent
    field already points elsewhere (the re-parenting setter stores the new parent first); entities
    the object does not hold are skipped."""
    target = "geoh5py/objects/object_base.py::ObjectBase.remove_children"
    props = ("C02", "C05", "C10")
    lenient = True

    def cases(self):
        return ["data-still-pointing-here", "data-already-pointing-to-its-new-parent", "not-held"]

    def setup(self, ctx):
        from geoh5py.data import FloatData
        from geoh5py.objects import Points

        me = Opaque("self", cls=Points)
        other_parent = Opaque("new-parent")
        child = Opaque("child", cls=FloatData)
        sibling = Opaque("sibling", cls=FloatData)
        for o in (me, other_parent, child, sibling):
            o.distinct = True
        child.attrs["parent"] = other_parent if ctx.case != "data-still-pointing-here" else me
        kept = PList([sibling] if ctx.case == "not-held" else [sibling, child])
        me.attrs["_children"] = kept
        me.attrs["_property_groups"] = PList([Opaque("pg")])
        scrub = Opaque("remove_data_from_groups")
        scrub.maybe_method = lambda I, a, kw: I.event("scrub", data=a[0])
        me.attrs["remove_data_from_groups"] = scrub
        ws = Opaque("workspace")
        wrc = Opaque("workspace.remove_children")
        wrc.maybe_method = lambda I, a, kw: I.event("unlink", parent=a[0], children=a[1])
        ws.attrs["remove_children"] = wrc
        me.attrs["workspace"] = ws
        ctx.env.update(me=me, child=child, sibling=sibling, kept=kept)
        return [me, PList([child])], {}

    def post(self, ctx, result):
        e = ctx.env
        scrubbed = [p["data"] for k, p in ctx.path.events if k == "scrub"]
        unl = [p for k, p in ctx.path.events if k == "unlink"]
        # the workspace owns the file side of a removal and its write guard: whatever the in-memory list
        # says (it may lag behind the file), the request is forwarded whole
        ctx.oblige("the-whole-request-reaches-the-workspace", len(unl) == 1 and unl[0]["parent"] is e["me"] and any(x is e["child"] for x in getattr(unl[0]["children"], "items", []) or []),
                   note="a requested removal was not forwarded to Workspace.remove_children (no file-side removal, no read-only refusal)")
        if ctx.case == "not-held":
            ctx.oblige("an-entity-the-object-does-not-hold-is-skipped", not scrubbed and e["kept"].items == [e["sibling"]])
            return
        ctx.oblige("the-child-leaves-the-child-list", e["child"] not in e["kept"].items and e["sibling"] in e["kept"].items,
                   note="the object still lists a child that was removed (or moved away)")
        ctx.oblige("the-removed-data-is-scrubbed-from-the-objects-property-groups", any(x is e["child"] for x in scrubbed),
                   note="a property group of this object keeps listing a data that is no longer its child")


class ObjectRemoveDisplaySettings(Contract):
    """ObjectBase.remove_children on the object's display settings (a data child the object also keeps
    a handle to), with `remove_data_from_groups` and the `visual_parameters` / `children` getters
    *executed* (not summarised): when the call returns the child is out of the child list and the
    object's handle is released -- an object that goes on holding the removed entity keeps its
    identifier alive in the workspace's registry."""
    target = "geoh5py/objects/object_base.py::ObjectBase.remove_children"
    variant = "display-settings"
    props = ("C05", "C06")
    lenient = True

    def cases(self):
        return ["object-with-a-property-group", "object-without-property-groups"]

    def setup(self, ctx):
        from geoh5py.data import FloatData, VisualParameters
        from geoh5py.objects import Points

        me = Opaque("self", cls=Points)
        child = Opaque("display-settings", cls=VisualParameters)
        sibling = Opaque("sibling", cls=FloatData)
        for o in (me, child, sibling):
            o.distinct = True
        child.attrs["parent"] = me
        kept = PList([sibling, child])
        me.attrs["_children"] = kept
        me.attrs["_visual_parameters"] = child
        pg = Opaque("pg")
        rp = Opaque("remove_properties")
        rp.maybe_method = lambda I, a, kw: I.event("scrub", data=a[0])
        pg.attrs["remove_properties"] = rp
        me.attrs["_property_groups"] = PList([pg]) if ctx.case == "object-with-a-property-group" else None
        ws = Opaque("workspace")
        wrc = Opaque("workspace.remove_children")
        wrc.maybe_method = lambda I, a, kw: I.event("unlink", parent=a[0], children=a[1])
        ws.attrs["remove_children"] = wrc
        me.attrs["workspace"] = ws
        ctx.env.update(me=me, child=child, sibling=sibling, kept=kept)
        return [me, PList([child])], {}

    def post(self, ctx, result):
        e = ctx.env
        ctx.oblige("the-display-settings-leave-the-child-list", e["child"] not in e["kept"].items and e["sibling"] in e["kept"].items)
        ctx.oblige("the-object-releases-its-handle-to-the-removed-display-settings", e["me"].attrs.get("_visual_parameters") is None,
                   note="the object still holds the removed entity: its identifier stays registered and cannot be given to a new entity or kept by a copy")

    def post_raises(self, ctx, sig):
        ctx.oblige("removing-the-display-settings-does-not-raise", False, kind="post-exc", note=f"{sig.exc_class.__name__} at {sig.origin}")


CONTRACTS = CONTRACTS + [ObjectRemoveChildren, ObjectRemoveDisplaySettings]


class ContainerRemoveChildren(Contract):
    """EntityContainer.remove_children (groups): the listed children leave the child list, the others
    stay, and the whole request is forwarded to the workspace (file-side removal and write guard)."""
    target = "geoh5py/shared/entity_container.py::EntityContainer.remove_children"
    props = ("C05", "C10")
    lenient = True

    def cases(self):
        return ["held", "not-held", "single-entity-not-in-a-list"]

    def setup(self, ctx):
        from geoh5py.groups import ContainerGroup
        from geoh5py.objects import Points

        me = Opaque("self", cls=ContainerGroup)
        child = Opaque("child", cls=Points)
        sibling = Opaque("sibling", cls=Points)
        for o in (me, child, sibling):
            o.distinct = True
        me.attrs["_children"] = PList([sibling] if ctx.case == "not-held" else [sibling, child])
        ws = Opaque("workspace")
        wrc = Opaque("workspace.remove_children")
        wrc.maybe_method = lambda I, a, kw: I.event("unlink", parent=a[0], children=a[1])
        ws.attrs["remove_children"] = wrc
        me.attrs["workspace"] = ws
        ctx.env.update(me=me, child=child, sibling=sibling)
        return [me, child if ctx.case.startswith("single") else PList([child])], {}

    def post(self, ctx, result):
        e = ctx.env
        kept = e["me"].attrs["_children"]
        items = list(getattr(kept, "items", kept))
        ctx.oblige("the-listed-child-leaves-the-others-stay", len(items) == 1 and items[0] is e["sibling"])
        unl = [p for k, p in ctx.path.events if k == "unlink"]
        ctx.oblige("the-whole-request-reaches-the-workspace", len(unl) == 1 and unl[0]["parent"] is e["me"] and any(x is e["child"] for x in getattr(unl[0]["children"], "items", []) or []),
                   note="a requested removal was not forwarded to Workspace.remove_children (no file-side removal, no read-only refusal)")


CONTRACTS = CONTRACTS + [ContainerRemoveChildren]


class RemoveLiveChildList(Contract):
    """`parent.remove_children(parent.children)` -- the list the parent itself hands out -- removes
    every child: none is left in the parent's list, in the session or for a later reader."""
    target = "geoh5py/objects/object_base.py::ObjectBase.remove_children"
    variant = "live-child-list"
    symbolic = False
    has_native = True
    props = ("C05",)
    bounded_scope = "a point cloud with 4 data (two of them in a property group), a container group with 3 objects, a drillhole with 3 depth logs, a drillhole group with 3 holes; parent.remove_children(parent.children) and, as a control, the same with a copy of the list; the parent's child list in the session and after re-opening (exhaustive)"

    def native_cases(self, tier, rng):
        for kind in ("points", "group", "hole", "drillhole-group"):
            for arg in ("live-list", "copy-of-the-list"):
                yield {"kind": kind, "argument": arg}
        # the display settings of an object (a data child the object also keeps a handle to)
        for through in ("workspace", "parent"):
            yield {"kind": "visual-parameters", "through": through}

    def native_check(self, case):
        import gc
        import os
        import shutil
        import tempfile

        import numpy as np

        from geoh5py.groups import ContainerGroup, DrillholeGroup
        from geoh5py.objects import Drillhole, Points
        from geoh5py.workspace import Workspace

        d = tempfile.mkdtemp()
        try:
            path = os.path.join(d, "l.geoh5")
            if case["kind"] == "visual-parameters":
                with Workspace.create(path) as ws:
                    o = Points.create(ws, name="parent", vertices=np.zeros((3, 3)))
                    vp = o.add_default_visual_parameters()
                    uid = vp.uid
                    if case["through"] == "workspace":
                        ws.remove_entity(vp)
                    else:
                        o.remove_children([vp])
                    del vp
                    gc.collect()
                    if o.visual_parameters is not None:
                        return f"after its display settings were removed (through the {case['through']}) the object still hands them out as visual_parameters ({case})"
                    if case["through"] == "workspace" and ws.get_entity(uid)[0] is not None:
                        return f"after the display settings were removed the workspace still finds them by identifier ({case})"
                return None
            with Workspace.create(path) as ws:
                if case["kind"] == "points":
                    parent = Points.create(ws, name="parent", vertices=np.zeros((3, 3)))
                    dat = parent.add_data({k: {"values": np.arange(3.0)} for k in "abcd"})
                    parent.add_data_to_group(dat[:2], "pg")
                elif case["kind"] == "group":
                    parent = ContainerGroup.create(ws, name="parent")
                    for k in "xyz":
                        Points.create(ws, name=k, vertices=np.zeros((2, 3)), parent=parent)
                else:
                    dg = DrillholeGroup.create(ws, name="parent" if case["kind"] == "drillhole-group" else "campaign")
                    for k in (("parent",) if case["kind"] == "hole" else ("h1", "h2", "h3")):
                        h = Drillhole.create(ws, parent=dg, name=k, collar=[0.0, 0.0, 0.0])
                        h.add_data({c: {"depth": np.arange(3.0), "values": np.arange(3.0)} for c in "abc"})
                    parent = dg if case["kind"] == "drillhole-group" else h
                    del h, dg
                n = len(parent.children)
                try:
                    parent.remove_children(parent.children if case["argument"] == "live-list" else list(parent.children))
                except Exception as exc:
                    return f"{type(parent).__name__}.remove_children(its {n} children, {case['argument']}) raised {type(exc).__name__}: {exc} ({case})"
                left = [getattr(c, "name", "?") for c in parent.children]
                if left:
                    return f"{type(parent).__name__}.remove_children(parent.children): {len(left)} of {n} children are still listed: {left} ({case})"
                del parent
                gc.collect()
            with Workspace(path, mode="r") as ws:
                back = ws.get_entity("parent")[0]
                left = [getattr(c, "name", "?") for c in back.children] + list(getattr(back, "get_data_list", lambda: [])())
                left = [x for x in left if x not in ("DEPTH", "FROM", "TO")]
                if left:
                    return f"after remove_children(parent.children) and a re-open the parent lists {left} again ({case})"
            return None
        finally:
            shutil.rmtree(d, ignore_errors=True)


CONTRACTS = CONTRACTS + [RemoveLiveChildList]
