"""Bounded stand-ins for the history quantifier of C01 / C02 / C05 / C09: seeded sequences of
public-API operations on a real file-backed workspace, with
  * WF(file)   -- the structural validity clauses (a)-(g) written from the format documentation,
  * read-back  -- the re-opened tree equals the live tree snapshotted just before the close,
  * deletion   -- removed entities are gone from children lists, lookups, property groups and file,
  * frame      -- per-node digests: one operation changes only its footprint.
"""
from __future__ import annotations

import gc
import hashlib
import os
import shutil
import tempfile
import uuid

import numpy as np

from pyvc.contracts import Contract

CONT = ("Data", "Groups", "Objects")
TCONT = {"Data": "Data types", "Groups": "Group types", "Objects": "Object types"}


def _s(x):
    return x.decode() if isinstance(x, bytes) else str(x)


def wf_file(path):
    """Structural validity of a geoh5 file (h5py only).  Returns a violation text or None."""
    import h5py

    with h5py.File(path, "r") as f:
        tops = list(f)
        if len(tops) != 1:
            return f"(a) expected one project group, found {tops}"
        p = f[tops[0]]
        for name in CONT + ("Types", "Root"):
            if name not in p:
                return f"(a) project has no '{name}'"
        for name in TCONT.values():
            if name not in p["Types"]:
                return f"(a) Types has no '{name}'"
        if not isinstance(p.get("Root", getlink=True), h5py.HardLink):
            return "(a) Root is not a hard link"
        flat = {}
        for c in CONT:
            for key in p[c]:
                node = p[c][key]
                if key in flat:
                    return f"(g) identifier {key} occurs in {flat[key][0]} and in {c}"
                flat[key] = (c, node)
                if _s(node.attrs.get("ID", "")) != key:
                    return f"(b) {c}/{key}: ID attribute {_s(node.attrs.get('ID', ''))} differs from its key"
                if "Type" not in node or not isinstance(node.get("Type", getlink=True), h5py.HardLink):
                    return f"(b) {c}/{key}: no hard Type link"
                t = node["Type"]
                tid = _s(t.attrs.get("ID", ""))
                shared = p["Types"][TCONT[c]]
                if tid not in shared or shared[tid].id != t.id:
                    return f"(b) {c}/{key}: Type is not the shared node Types/{TCONT[c]}/{tid}"
        root_key = [k for k, (c, n) in flat.items() if c == "Groups" and n.id == p["Root"].id]
        if len(root_key) != 1:
            return "(a) Root does not point to exactly one node of Groups"
        root_key = root_key[0]
        parents = {k: [] for k in flat}
        kids = {k: [] for k in flat}
        for key, (c, node) in flat.items():
            if c == "Data":
                continue  # a data node's 'Data' member is its values dataset, not a child container
            for sub in CONT:
                if sub not in node or not isinstance(node[sub], h5py.Group):
                    continue
                if c == "Objects" and sub != "Data":
                    if len(node[sub]):
                        return f"(c) object {key} has a '{sub}' container with entries (objects hold data only)"
                    continue
                if c == "Data" and len(node[sub]):
                    return f"(c) data {key} has children"
                for ck in node[sub]:
                    if not isinstance(node[sub].get(ck, getlink=True), h5py.HardLink):
                        return f"(c) {c}/{key}/{sub}/{ck} is not a hard link"
                    if ck not in flat or flat[ck][0] != sub:
                        return f"(c) {c}/{key}/{sub}/{ck}: dangling entry (no node {sub}/{ck})"
                    if node[sub][ck].id != flat[ck][1].id:
                        return f"(c) {c}/{key}/{sub}/{ck} is a copy, not the node {sub}/{ck}"
                    parents[ck].append(key)
                    kids[key].append(ck)
        for k, pl in parents.items():
            if k == root_key:
                if pl:
                    return f"(d) Root has a parent {pl}"
            elif len(pl) != 1:
                return f"(d) {flat[k][0]}/{k} has {len(pl)} parent entries (orphan or duplicated)"
        seen, todo = {root_key}, [root_key]
        while todo:
            for ck in kids[todo.pop()]:
                if ck not in seen:
                    seen.add(ck)
                    todo.append(ck)
        for k in flat:
            if k not in seen:
                return f"(d) {flat[k][0]}/{k} is not reachable from Root"
        for key in p["Objects"]:
            node = p["Objects"][key]
            if "PropertyGroups" not in node:
                continue
            own = set(node["Data"]) if "Data" in node else set()
            for pg in node["PropertyGroups"]:
                props = node["PropertyGroups"][pg].attrs.get("Properties")
                for u in ([] if props is None else list(np.atleast_1d(props))):
                    if _s(u) not in own:
                        return f"(f) property group {pg} of object {key} lists {_s(u)} which is not a child of that object"
    return None


def file_digests(path):
    import h5py

    out = {}

    def visit(name, obj):
        h = hashlib.sha256()
        for k in sorted(obj.attrs):
            h.update(k.encode() + repr(np.asarray(obj.attrs[k]).tolist()).encode())
        if isinstance(obj, h5py.Dataset):
            h.update(repr(np.asarray(obj[()]).tolist()).encode())
        else:
            h.update(repr(sorted(obj.keys())).encode())
        out[name] = h.hexdigest()

    with h5py.File(path, "r") as f:
        f.visititems(visit)
    return out


def tree_snapshot(ws):
    """uid -> description of every entity reachable from the root (public API only)."""
    snap = {}

    def rec(e, parent_uid):
        d = {"class": type(e).__name__, "name": e.name, "parent": str(parent_uid), "allow_delete": bool(getattr(e, "allow_delete", True)), "visible": bool(getattr(e, "visible", True))}
        for a in ("vertices", "cells"):
            if hasattr(e, a) and type(e).__name__ != "Points" or a == "vertices" and hasattr(e, a):
                v = getattr(e, a, None)
                d[a] = None if v is None else np.asarray(v).tolist()
        if hasattr(e, "values") and hasattr(e, "association"):
            v = e.values
            d["values"] = None if v is None else (np.asarray(v).tolist() if not isinstance(v, str) else v)
        pgs = {}
        for pg in (getattr(e, "property_groups", None) or []):
            pgs[pg.name] = sorted(str(u) for u in (pg.properties or []))
        d["property_groups"] = pgs
        kids = [c for c in getattr(e, "children", []) if hasattr(c, "uid") and type(c).__name__ not in ("PropertyGroup",)]
        d["children"] = sorted(str(c.uid) for c in kids)
        snap[str(e.uid)] = d
        for c in kids:
            rec(c, e.uid)

    rec(ws.root, None)
    return snap


def diff_snap(a, b):
    for k in a:
        if k not in b:
            return f"entity {a[k]['class']} '{a[k]['name']}' ({k}) is lost"
    for k in b:
        if k not in a:
            return f"entity {b[k]['class']} '{b[k]['name']}' ({k}) appeared (resurrected or duplicated)"
    for k in a:
        for field in a[k]:
            if a[k][field] != b[k].get(field):
                return f"{a[k]['class']} '{a[k]['name']}': {field} was {a[k][field]!r}, re-opened {b[k].get(field)!r}"
    return None


OPS = ("group", "points", "curve", "data", "rename", "move", "copy", "remove_ws", "remove_parent", "pg_add", "pg_remove", "reopen", "gc", "flag", "copy_edit", "remove_vertex", "move_data", "protect", "remove_protected", "deferred", "pg_foreign", "list_registries", "pg_drop", "remove_foreign_pg")


def run_ops(case):
    from geoh5py.groups import ContainerGroup
    from geoh5py.objects import Curve, Points
    from geoh5py.workspace import Workspace

    d = tempfile.mkdtemp()
    path = os.path.join(d, "h.geoh5")
    try:
        ws = Workspace.create(path)
        names = {"n": 0}
        wsbox = [ws]

        def fresh(prefix):
            names["n"] += 1
            return f"{prefix}{names['n']}"

        def groups():
            return [g for g in wsbox[0].groups if type(g).__name__ == "ContainerGroup"]

        def objs():
            return list(wsbox[0].objects)

        def pick(lst, k):
            return lst[k % len(lst)] if lst else None

        removed = []

        def do_step(step, op, a, b):
            # every step runs in its own frame: the harness keeps no reference to entities between steps
            ws = wsbox[0]
            where = f"step {step} ({op},{a},{b})"
            if op == "group":
                ContainerGroup.create(ws, name=fresh("G"), parent=pick(groups(), a) or ws.root)
            elif op == "points":
                Points.create(ws, name=fresh("P"), vertices=np.arange(9.0).reshape(3, 3) + step, parent=pick(groups(), a) or ws.root)
            elif op == "curve":
                Curve.create(ws, name=fresh("C"), vertices=np.arange(12.0).reshape(4, 3) + step, parent=pick(groups(), a) or ws.root)
            elif op == "deferred":
                # the public create_entity(..., save_on_creation=False): the entity is written by the final save on close
                ws.create_entity(Points, save_on_creation=False, entity={"name": fresh("deferred"), "vertices": np.arange(9.0).reshape(3, 3) - step, "parent": pick(groups(), a) or ws.root})
            elif op == "data":
                o = pick(objs(), a)
                if o is not None:
                    o.add_data({fresh("d"): {"values": np.arange(o.n_vertices, dtype=float) + step}})
            elif op == "rename":
                o = pick(objs() + groups(), a)
                if o is not None:
                    if step % 4 == 3:
                        o.name = ws.name  # any text is a valid name, the project group's own name included
                    else:
                        o.name = fresh("renamed") + ("  " if step % 2 else "") if step % 3 else "  " + fresh("renamed")  # names are free text: blanks are kept
            elif op == "flag":
                o = pick(objs(), a)
                if o is not None:
                    o.visible = not o.visible
            elif op == "move":
                o, g = pick(objs(), a), pick(groups(), b)
                if o is not None and g is not None and o.parent is not g:
                    o.parent = g
            elif op == "copy":
                o = pick(objs(), a)
                if o is not None:
                    o.copy(parent=pick(groups(), b) or ws.root)
            elif op == "protect":
                o = pick(objs() + groups(), a)
                if o is not None:
                    o.allow_delete = False
            elif op == "remove_protected":
                # a request to remove an entity whose delete permission is off is refused and changes nothing
                cands = [x for x in objs() + groups() if not x.allow_delete]
                t = pick(cands, a)
                if t is not None:
                    before = tree_snapshot(ws)
                    try:
                        ws.remove_entity(t)
                        refused = False
                    except UserWarning:
                        refused = True
                    del t, cands
                    gc.collect()
                    if not refused:
                        return f"{where}: an entity whose delete permission is off was removed ({case})"
                    bad = diff_snap(before, tree_snapshot(ws)) or diff_snap(tree_snapshot(ws), before)
                    if bad:
                        return f"{where}: a refused removal changed the workspace: {bad} ({case})"
            elif op == "move_data":
                # re-parent a data set (preferably one that belongs to a property group) to another object of the same size
                srcs = [x for x in objs() if any(hasattr(c, "values") for c in x.children)]
                o = pick(srcs, a)
                dst = pick([x for x in objs() if x is not o and getattr(x, "n_vertices", None) == getattr(o, "n_vertices", -1)], b) if o is not None else None
                if o is not None and dst is not None:
                    members = {u for pg in (o.property_groups or []) for u in (pg.properties or [])}
                    kids = [c for c in o.children if hasattr(c, "values")]
                    kid = next((c for c in kids if c.uid in members), kids[0])
                    kid.parent = dst
            elif op == "copy_edit":
                # the usual edit pattern on a copy: take the values, change them in place, assign them back
                o = pick([x for x in objs() if any(hasattr(c, "values") and getattr(c, "values", None) is not None for c in x.children)], a)
                if o is not None:
                    c = o.copy(parent=pick(groups(), b) or ws.root)
                    kid = [k for k in c.children if hasattr(k, "values") and k.values is not None][0]
                    v = kid.values
                    v[: max(1, len(v) // 2)] = -5.0 - step
                    kid.values = v
            elif op == "remove_vertex":
                o = pick([x for x in objs() if getattr(x, "n_vertices", 0) and x.n_vertices > 2], a)
                if o is not None:
                    o.remove_vertices([b % (o.n_vertices - 1)])
            elif op in ("remove_ws", "remove_parent"):
                def deletable(x):  # the entity and everything below it may be deleted (protected ones have their own op)
                    return bool(getattr(x, "allow_delete", True)) and all(deletable(c) for c in getattr(x, "children", []) if hasattr(c, "uid") and hasattr(c, "allow_delete"))

                cands = [x for x in objs() + [g for g in groups()] + [c for o in objs() for c in o.children if hasattr(c, "values")] if deletable(x)]
                t = pick(cands, a)
                if t is None:
                    del cands
                if t is not None:
                    uid, parent = t.uid, t.parent
                    desc = [c.uid for c in getattr(t, "children", []) if hasattr(c, "uid")]
                    if op == "remove_ws":
                        ws.remove_entity(t)
                    else:
                        parent.remove_children([t])
                    del t, cands  # the caller drops its own references
                    gc.collect()
                    if op == "remove_ws":
                        removed.extend([uid] + desc)
                        if any(getattr(c, "uid", None) == uid for c in parent.children):
                            return f"{where}: removed entity still in its parent's children ({case})"
                        if ws.get_entity(uid)[0] is not None:
                            return f"{where}: lookup by identifier still yields the removed entity ({case})"
                        for o in objs():
                            for pg in (o.property_groups or []):
                                if uid in (pg.properties or []):
                                    return f"{where}: property group '{pg.name}' still lists the removed data ({case})"
            elif op == "pg_add":
                o = pick([x for x in objs() if any(hasattr(c, "values") for c in x.children)], a)
                if o is not None:
                    datas = [c for c in o.children if hasattr(c, "values")]
                    o.add_data_to_group(datas[: 1 + b % 2], f"pg{b % 2}")
            elif op == "pg_foreign":
                # a property group asked to list data of *another* object: refused, or at least never written that way
                withdata = [x for x in objs() if any(hasattr(c, "values") for c in x.children)]
                o, o2 = pick(withdata, a), pick(withdata, a + 1 + b)
                if o is not None and o2 is not None and o is not o2:
                    foreign = [c for c in o2.children if hasattr(c, "values")][0].uid
                    try:
                        o.create_property_group(name=fresh("foreign"), properties=[foreign])
                    except Exception:
                        pass
            elif op == "remove_foreign_pg":
                # an object is asked to drop a property group that belongs to another object: nothing to do, nothing written
                owners = [x for x in objs() if x.property_groups]
                o2 = pick(owners, a)
                o = pick([x for x in objs() if x is not o2], b)
                if o is not None and o2 is not None:
                    o.remove_children([o2.property_groups[0]])
            elif op == "list_registries":
                # the workspace's listings answer at any time (entries of entities that are gone are dropped on the way)
                _ = len(ws.groups), len(ws.objects), len(ws.data), len(ws.types), len(ws.property_groups)
            elif op == "pg_drop":
                # a whole property group is removed through the workspace
                o = pick([x for x in objs() if x.property_groups], a)
                if o is not None:
                    ws.remove_entity(o.property_groups[0])
            elif op == "pg_remove":
                o = pick([x for x in objs() if x.property_groups], a)
                if o is not None:
                    pg = o.property_groups[0]
                    if pg.properties:
                        o.remove_data_from_groups([pg.properties[0]]) if False else pg.remove_properties([pg.properties[0]])
            elif op == "gc":
                gc.collect()
            elif op == "reopen":
                live = tree_snapshot(ws)
                ws.close()
                bad = wf_file(path)
                if bad:
                    return f"{where}: written file is not a valid geoh5 file: {bad} ({case})"
                ws = Workspace(path, mode="r+")
                wsbox[0] = ws
                bad = diff_snap(live, tree_snapshot(ws))
                if bad:
                    return f"{where}: re-opened tree differs from the live one: {bad} ({case})"
                for uid in removed:
                    if ws.get_entity(uid)[0] is not None:
                        return f"{where}: removed entity {uid} is back after re-opening ({case})"
            return None

        for step, (op, a, b) in enumerate(case["ops"]):
            bad = do_step(step, op, a, b)
            gc.collect()
            if bad:
                return bad
        ws = wsbox[0]
        live = tree_snapshot(ws)
        ws.close()
        bad = wf_file(path)
        if bad:
            return f"final close: written file is not a valid geoh5 file: {bad} ({case})"
        with Workspace(path, mode="r") as ws2:
            bad = diff_snap(live, tree_snapshot(ws2))
            if bad:
                return f"final re-open differs from the live tree: {bad} ({case})"
        # opening and closing without mutation changes nothing
        before = file_digests(path)
        with Workspace(path, mode="r+"):
            pass
        after = file_digests(path)
        if before != after:
            ch = [k for k in set(before) | set(after) if before.get(k) != after.get(k)]
            return f"open+close without mutation changed the file at {ch[:3]} ({case})"
    finally:
        try:
            ws.close()
        except Exception:
            pass
        shutil.rmtree(d, ignore_errors=True)
    return None


class ApiHistories(Contract):
    target = "geoh5py/workspace/workspace.py::Workspace.save_entity"
    variant = "api-histories"
    symbolic = False
    has_native = True
    native_shards = 4
    props = ("C01", "C02", "C05", "C09")
    bounded_scope = "seeded operation sequences of length 6-14 over {create group/points/curve/data, create a points object without write-through (save_on_creation=False), rename, flag, move, copy, copy then edit the copy's values in place, remove a vertex, move a data set to another object, switch a delete permission off and ask for the removal (also after a re-open), remove through the workspace / through the parent, property-group add/remove, a property group asked to list another object's data, re-open, gc}: 40 sequences (quick) / 600 (thorough) + 18 fixed; WF(file) after every close, live tree == re-opened tree, removed entities stay gone, idle open/close leaves all node digests unchanged"
    fixed = [
        [("group", 0, 0), ("points", 0, 0), ("data", 0, 0), ("data", 0, 0), ("data", 0, 0), ("data", 0, 0), ("remove_ws", 0, 0), ("reopen", 0, 0)],
        [("points", 0, 0), ("data", 0, 0), ("data", 0, 0), ("pg_add", 0, 1), ("pg_add", 0, 0), ("remove_ws", 2, 0), ("reopen", 0, 0)],
        [("group", 0, 0), ("group", 0, 0), ("points", 0, 0), ("curve", 1, 0), ("move", 0, 1), ("reopen", 0, 0), ("move", 1, 0), ("reopen", 0, 0)],
        [("group", 0, 0), ("points", 0, 0), ("points", 0, 0), ("group", 0, 0), ("remove_ws", 2, 0), ("gc", 0, 0), ("reopen", 0, 0)],
        [("points", 0, 0), ("data", 0, 0), ("copy", 0, 0), ("rename", 0, 0), ("reopen", 0, 0), ("remove_parent", 0, 0), ("reopen", 0, 0)],
        [("points", 0, 0), ("data", 0, 0), ("flag", 0, 0), ("rename", 0, 0), ("flag", 0, 0), ("reopen", 0, 0), ("rename", 0, 0), ("reopen", 0, 0)],
        [("curve", 0, 0), ("data", 0, 0), ("remove_vertex", 0, 1), ("reopen", 0, 0), ("remove_vertex", 0, 0), ("reopen", 0, 0)],
        [("group", 0, 0), ("points", 0, 0), ("data", 0, 0), ("protect", 0, 0), ("remove_protected", 0, 0), ("reopen", 0, 0), ("remove_protected", 0, 0), ("reopen", 0, 0)],
        [("points", 0, 0), ("protect", 1, 0), ("reopen", 0, 0), ("remove_protected", 0, 0), ("remove_protected", 1, 0)],
        [("points", 0, 0), ("points", 0, 0), ("data", 0, 0), ("data", 0, 0), ("pg_add", 0, 0), ("move_data", 0, 0), ("reopen", 0, 0), ("move_data", 1, 0), ("reopen", 0, 0)],
        [("points", 0, 0), ("data", 0, 0), ("copy_edit", 0, 0), ("reopen", 0, 0), ("copy_edit", 1, 0), ("reopen", 0, 0)],
        [("group", 0, 0), ("points", 0, 0), ("deferred", 0, 0), ("deferred", 1, 0), ("data", 1, 0), ("reopen", 0, 0), ("deferred", 0, 0), ("reopen", 0, 0)],
        [("points", 0, 0), ("points", 0, 0), ("data", 0, 0), ("data", 1, 0), ("pg_foreign", 0, 0), ("reopen", 0, 0), ("pg_foreign", 1, 0), ("reopen", 0, 0)],
        [("points", 0, 0), ("points", 0, 0), ("data", 0, 0), ("pg_add", 0, 0), ("remove_foreign_pg", 0, 0), ("reopen", 0, 0)],
        # a property group created after its members (it sits behind them in the child list), then the whole object removed in the same session
        [("points", 0, 0), ("data", 0, 0), ("data", 0, 0), ("pg_add", 0, 1), ("remove_ws", 0, 0), ("reopen", 0, 0)],
        [("group", 0, 0), ("points", 0, 0), ("data", 0, 0), ("data", 0, 0), ("pg_add", 0, 1), ("pg_add", 0, 0), ("remove_ws", 1, 0), ("gc", 0, 0), ("reopen", 0, 0)],
        [("points", 0, 0), ("data", 0, 0), ("pg_add", 0, 0), ("list_registries", 0, 0), ("pg_drop", 0, 0), ("gc", 0, 0), ("list_registries", 0, 0), ("reopen", 0, 0), ("list_registries", 0, 0)],
        [("group", 0, 0), ("curve", 0, 0), ("data", 0, 0), ("data", 0, 0), ("copy_edit", 0, 0), ("remove_vertex", 0, 2), ("reopen", 0, 0)],
    ]

    def native_cases(self, tier, rng):
        from pyvc.contracts import _open_findings

        # while KF-C05-1 is open, removal through the parent is exercised only by its recorded witness
        ops_pool = tuple(o for o in OPS if not (o == "remove_parent" and "KF-C05-1" in _open_findings()))
        for ops in self.fixed:
            if any(o[0] not in ops_pool for o in ops):
                continue
            yield {"ops": ops}
        for _ in range(40 if tier == "quick" else 600):
            n = rng.randint(6, 14)
            ops = [(rng.choice(("group", "points", "curve")), rng.randint(0, 3), 0) for _ in range(3)]
            ops += [(rng.choice(ops_pool), rng.randint(0, 5), rng.randint(0, 3)) for _ in range(n - 3)]
            yield {"ops": ops}

    def native_check(self, case):
        case = {"ops": [tuple(o) for o in case["ops"]]}
        try:
            return run_ops(case)
        except Exception as exc:
            import traceback

            return f"{type(exc).__name__}: {exc} during {case} | " + " <- ".join(f"{fr.name}:{fr.lineno}" for fr in traceback.extract_tb(exc.__traceback__)[-3:])


class KfRemoveThroughParent(ApiHistories):
    """Replays the recorded witness of KF-C05-1 (must still fail while the finding is open)."""
    variant = "kf-remove-through-parent"

    def native_cases(self, tier, rng):
        return []


CONTRACTS = [ApiHistories, KfRemoveThroughParent]


class ImageCornersNative(Contract):
    """The corners a GeoImage shows in the session are the corners a later session reads: also when
    they are derived from the image (no corners were ever assigned) and the image is replaced after
    they were read."""
    target = "geoh5py/objects/geo_image.py::GeoImage.vertices.fget"
    variant = "image-corners"
    symbolic = False
    has_native = True
    props = ("C01",)
    bounded_scope = "one GeoImage (20x30 pixels); corners {read, not read} before the image is {kept, replaced by a 50x80 image}; corners {never assigned, assigned before, assigned after}; live corners at close compared with the corners read by a later session (exhaustive)"

    def native_cases(self, tier, rng):
        for read_first in (False, True):
            for replace in (False, True):
                for assigned in ("never", "before", "after"):
                    yield {"read_first": read_first, "replace": replace, "assigned": assigned}

    def native_check(self, case):
        from geoh5py.objects import GeoImage
        from geoh5py.workspace import Workspace

        d = tempfile.mkdtemp()
        try:
            path = os.path.join(d, "img.geoh5")
            rng = np.random.default_rng(3)
            mine = np.array([[0.0, 10.0, 0.0], [40.0, 10.0, 0.0], [40.0, 0.0, 0.0], [0.0, 0.0, 0.0]])
            with Workspace.create(path) as ws:
                g = GeoImage.create(ws, name="img", image=rng.integers(0, 255, (20, 30, 3)).astype("uint8"))
                if case["assigned"] == "before":
                    g.vertices = mine
                if case["read_first"]:
                    _ = g.vertices
                if case["replace"]:
                    g.image = rng.integers(0, 255, (50, 80, 3)).astype("uint8")
                if case["assigned"] == "after":
                    g.vertices = mine
                live = np.asarray(g.vertices, dtype=float).copy()
                if case["assigned"] != "never" and not np.allclose(live, mine):
                    return f"corners assigned to the image read {live.tolist()} in the session ({case})"
            with Workspace(path, mode="r") as ws:
                later = np.asarray(ws.get_entity("img")[0].vertices, dtype=float)
            if later.shape != live.shape or not np.allclose(later, live):
                return f"the image showed the corners {live[:, :2].tolist()} when the file was closed; a later session reads {later[:, :2].tolist()} ({case})"
            return None
        finally:
            gc.collect()
            shutil.rmtree(d, ignore_errors=True)


CONTRACTS = CONTRACTS + [ImageCornersNative]
