"""C08: values survive storage unchanged; unrepresentable values are rejected, not altered."""
from __future__ import annotations

import itertools
import os
import shutil
import tempfile

import numpy as np
import z3

from pyvc.contracts import Contract
from pyvc.core import fresh_name
from pyvc.models_np import Z, sym_arr
from pyvc.values import AbsObj, Arr, Obj, Opaque, mk, sym, to_z3, zbool

INT32_MIN, INT32_MAX = -(2 ** 31), 2 ** 31 - 1


class IntegerFormatType(Contract):
    target = "geoh5py/data/integer_data.py::IntegerData.format_type"
    props = ("C08",)
    has_native = True
    bounded_scope = "single-element arrays of int8/16/32/64, uint8/16/32/64, float32/64 at 0, +-1, 32-bit boundaries +-1, 2^40, 1.5, -0.5 (exhaustive over the listed values)"

    def cases(self):
        return ["integer-dtype", "float-dtype"]

    def setup(self, ctx):
        from geoh5py.data import IntegerData

        n = ctx.int("n", 0)
        vals = sym_arr("values", (n.e,), "int" if ctx.case == "integer-dtype" else "real")
        ctx.env.update(n=n, vals=vals)
        return [Obj(IntegerData, {}), vals], {}

    def post(self, ctx, result):
        e = ctx.env
        i = z3.Int(fresh_name("i"))
        rng = z3.And(i >= 0, i < e["n"].e)
        ok = isinstance(result, Arr) and result.dtype == "int"
        ctx.oblige("returns-an-integer-array", ok)
        if not ok:
            return
        x = e["vals"].elem(i)
        xi = x if e["vals"].dtype == "int" else z3.ToInt(x)
        ctx.oblige("one-entry-per-input", Z(result.shape[0]) == e["n"].e)
        ctx.oblige("accepted-values-are-stored-unchanged", z3.Implies(rng, z3.And(result.elem(i) == xi, (z3.ToReal(xi) == x) if e["vals"].dtype == "real" else True)))
        ctx.oblige("accepted-values-fit-the-stored-32-bit-type", z3.Implies(rng, z3.And(xi >= INT32_MIN, xi <= INT32_MAX)))

    def post_raises(self, ctx, sig):
        e = ctx.env
        i = z3.Int(fresh_name("i"))
        x = e["vals"].elem(i)
        bad = z3.Or(x < INT32_MIN, x > INT32_MAX) if e["vals"].dtype == "int" else z3.Or(z3.ToReal(z3.ToInt(x)) != x, x < INT32_MIN, x > INT32_MAX)
        ctx.oblige("rejects-only-unrepresentable-values", z3.Exists([i], z3.And(i >= 0, i < e["n"].e, bad)), kind="post-exc")
        ctx.oblige("rejects-with-a-type-or-value-error", sig.exc_class in (TypeError, ValueError), kind="post-exc")

    def native_cases(self, tier, rng):
        vals = [0, 1, -1, INT32_MAX, INT32_MAX + 1, INT32_MIN, INT32_MIN - 1, 2 ** 40, 1.5, -0.5, 255, 256]
        for dt in ("int8", "int16", "int32", "int64", "uint8", "uint16", "uint32", "uint64", "float32", "float64"):
            for v in vals:
                info = np.iinfo(dt) if dt.startswith(("int", "uint")) else None
                if info is not None and (v != int(v) or v < info.min or v > info.max):
                    continue
                yield {"dtype": dt, "value": v}

    def native_check(self, case):
        from geoh5py.objects import Points
        from geoh5py.workspace import Workspace

        arr = np.array([case["value"], 0], dtype=case["dtype"])
        x = arr[0].item()
        rep = float(x) == int(x) and INT32_MIN <= int(x) <= INT32_MAX
        with Workspace() as ws:
            pts = Points.create(ws, vertices=np.zeros((2, 3)))
            try:
                d = pts.add_data({"i": {"values": arr, "type": "integer"}})
                got = d.values[0].item()
            except (TypeError, ValueError, OverflowError):
                return None if not rep or int(x) == INT32_MIN else f"representable value {x!r} ({case['dtype']}) rejected"
            if not rep:
                return f"unrepresentable value {x!r} ({case['dtype']}) was accepted and stored as {got!r}"
            if got != int(x):
                return f"value {x!r} ({case['dtype']}) stored as {got!r}"
        return None


class BooleanFormatType(Contract):
    target = "geoh5py/data/boolean_data.py::BooleanData.format_type"
    props = ("C08",)
    has_native = True
    bounded_scope = "arrays of up to 2 entries over {0, 1, 2, -1, 0.5, 0.25, 1-2^-53, 5e-324, True, False} in int/float/bool dtypes (exhaustive over the listed values)"

    def cases(self):
        return ["integer-dtype", "float-dtype", "bool-dtype"]

    def setup(self, ctx):
        from geoh5py.data import BooleanData

        n = ctx.int("n", 0)
        kind = {"integer-dtype": "int", "float-dtype": "real", "bool-dtype": "bool"}[ctx.case]
        vals = sym_arr("values", (n.e,), kind)
        ctx.env.update(n=n, vals=vals, kind=kind)
        return [Obj(BooleanData, {"_name": "b"}), vals], {}

    def _num(self, e, i):
        x = e["vals"].elem(i)
        return z3.If(x, 1, 0) if e["kind"] == "bool" else x

    def post(self, ctx, result):
        e = ctx.env
        i = z3.Int(fresh_name("i"))
        rng = z3.And(i >= 0, i < e["n"].e)
        ok = isinstance(result, Arr) and result.dtype == "bool"
        ctx.oblige("returns-a-boolean-array", ok)
        if not ok:
            return
        x = self._num(e, i)
        ctx.oblige("only-0-and-1-are-accepted", z3.Implies(rng, z3.Or(x == 0, x == 1)))
        ctx.oblige("1-is-true-0-is-false", z3.Implies(rng, result.elem(i) == (x == 1)))

    def post_raises(self, ctx, sig):
        e = ctx.env
        i = z3.Int(fresh_name("i"))
        x = self._num(e, i)
        ctx.oblige("rejects-only-values-other-than-0-and-1", z3.Exists([i], z3.And(i >= 0, i < e["n"].e, x != 0, x != 1)), kind="post-exc")
        ctx.oblige("rejects-with-a-value-error", sig.exc_class is ValueError, kind="post-exc")

    attr_overrides = {"name": lambda I, o: "b"}

    def native_cases(self, tier, rng):
        vals = [0, 1, 2, -1, 0.5, 0.25, 1 - 2 ** -53, 5e-324, True, False]
        for v in vals:
            for w in (0, 1):
                yield {"values": [v, w]}

    def native_check(self, case):
        from geoh5py.objects import Points
        from geoh5py.workspace import Workspace

        arr = np.array(case["values"])
        valid = all(float(v) in (0.0, 1.0) for v in arr)
        with Workspace() as ws:
            pts = Points.create(ws, vertices=np.zeros((2, 3)))
            try:
                d = pts.add_data({"b": {"values": arr, "type": "boolean"}})
                got = [bool(v) for v in d.values]
            except (ValueError, TypeError):
                return None if not valid else f"valid 0/1 values {case['values']} rejected"
            if not valid:
                return f"values {case['values']} are not all 0/1 but were accepted and read back as {got}"
            if got != [float(v) == 1.0 for v in arr]:
                return f"{case['values']} read back as {got}"
        return None


class FormatValuesLength(Contract):
    """NumericData.format_values: whatever the input rank, more entries than the geometry are refused."""
    target = "geoh5py/data/numeric_data.py::NumericData.format_values"
    props = ("C08", "C07")
    has_native = True
    attr_overrides = {"n_values": lambda I, obj: obj.fields["_n_values"], "nan_value": lambda I, obj: obj.fields["_nan_value"], "association": lambda I, obj: obj.fields["_association"]}
    bounded_scope = "float/integer data on a 3-vertex object given 1-D arrays of length 0-5 and 2-D arrays of shape (3,2), (2,2), (1,3), (3,1) (exhaustive over the listed shapes)"
    trusted = ("format_type is the identity on already well-typed float arrays (its own contracts are separate)",)

    def cases(self):
        return ["1d", "2d"]

    def setup(self, ctx):
        from geoh5py.data import FloatData
        from geoh5py.data.data_association_enum import DataAssociationEnum

        n = ctx.int("n_values", 0)
        ndv = sym("nan_value", "real")
        if ctx.case == "1d":
            m = ctx.int("len", 0)
            vals = sym_arr("values", (m.e,), "real")
            total = m.e
        else:
            rows = ctx.int("rows", 0)
            vals = sym_arr("values", (rows.e, 2), "real")
            total = rows.e * 2
        obj = Obj(FloatData, {"_n_values": n, "_nan_value": ndv, "_association": DataAssociationEnum.VERTEX})
        ctx.env.update(n=n, total=total)
        return [obj, vals], {}

    def post(self, ctx, result):
        e = ctx.env
        ok = isinstance(result, Arr) and result.ndim == 1
        ctx.oblige("returns-a-1d-array", ok)
        if ok:
            ctx.oblige("one-entry-per-vertex-or-cell", Z(result.shape[0]) == e["n"].e)
            ctx.oblige("more-entries-than-the-geometry-never-accepted", e["total"] <= e["n"].e)

    def post_raises(self, ctx, sig):
        e = ctx.env
        ctx.oblige("refuses-only-more-entries-than-the-geometry", z3.And(sig.exc_class is ValueError, e["total"] > e["n"].e), kind="post-exc")

    def native_cases(self, tier, rng):
        for shape in [(0,), (1,), (2,), (3,), (4,), (5,), (3, 2), (2, 2), (1, 3), (3, 1)]:
            for typ in ("float", "integer"):
                yield {"shape": list(shape), "type": typ}

    def native_check(self, case):
        from geoh5py.objects import Points
        from geoh5py.workspace import Workspace

        shape = tuple(case["shape"])
        arr = (np.arange(int(np.prod(shape)), dtype=float) + 1).reshape(shape)
        if case["type"] == "integer":
            arr = arr.astype("int32")
        with Workspace() as ws:
            pts = Points.create(ws, vertices=np.zeros((3, 3)))
            d = pts.add_data({"d": {"values": np.zeros(3, dtype=arr.dtype), "association": "VERTEX", "type": case["type"]}})
            try:
                d.values = arr
            except ValueError:
                return None if arr.size > 3 else f"array of {arr.size} entries refused for 3 vertices"
            if arr.size > 3:
                return f"array of shape {shape} ({arr.size} entries) accepted for 3 vertices; stored length {len(d.values)}"
            if len(d.values) != 3:
                return f"stored length {len(d.values)} for 3 vertices"
        return None


# ------------------------------------------------------------------------------------------
# bounded stand-in: storage round trip through a real file, raw dataset inspected with h5py
# ------------------------------------------------------------------------------------------


class StorageRoundTrip(Contract):
    target = "geoh5py/io/h5_writer.py::H5Writer.write_data_values"
    variant = "round-trip"
    symbolic = False
    has_native = True
    props = ("C08",)
    bounded_scope = "float64 specials (NaN, +-inf, subnormal, max, -0.0, 1e-38 neighbours of the sentinel), int32 boundaries, booleans, referenced keys, text corpus (empty, ASCII, BMP, astral, combining, 1-element arrays), comments; written, closed, re-opened, raw 'Data' dataset inspected"

    def native_cases(self, tier, rng):
        yield {"kind": "float", "values": [0.0, -0.0, 1.5, float("nan"), float("inf"), float("-inf"), 5e-324, 1.7976931348623157e308]}
        yield {"kind": "float", "values": [float("nan"), float("nan")]}
        yield {"kind": "float", "values": [1.17549435e-38 * 2, 1.0e-38, 3.0]}
        # the closest neighbours of the float no-data sentinel are ordinary values (only the sentinel itself is excepted)
        s_ = 1.175494351e-38
        yield {"kind": "float", "values": [float(np.nextafter(s_, 0.0)), float(np.nextafter(s_, 1.0)), float(np.finfo(np.float32).tiny), 1.1755e-38, s_ * (1 + 1e-9), 2.0]}
        yield {"kind": "integer", "values": [0, 1, -1, INT32_MAX, INT32_MIN + 1]}
        yield {"kind": "boolean", "values": [0, 1, 1, 0]}
        yield {"kind": "referenced", "values": [1, 2, 0, 2], "map": {1: "A", 2: "Bé"}}
        for txt in (["a", "b", "c"], ["", "x", ""], ["é", "日本", "𝔘"], ["é", "z", "q"]):
            yield {"kind": "text", "values": txt}
        for _ in range(5 if tier == "quick" else 60):
            yield {"kind": "float", "values": [rng.choice([rng.uniform(-1e30, 1e30), float("nan"), rng.uniform(-1e-30, 1e-30)]) for _ in range(4)]}

    def native_check(self, case):
        import h5py

        from geoh5py.objects import Points
        from geoh5py.shared import FLOAT_NDV, INTEGER_NDV
        from geoh5py.workspace import Workspace

        d = tempfile.mkdtemp()
        path = os.path.join(d, "c08.geoh5")
        try:
            n = len(case["values"])
            with Workspace.create(path) as ws:
                pts = Points.create(ws, vertices=np.zeros((n, 3)))
                spec = {"values": np.array(case["values"]) if case["kind"] != "text" else np.array(case["values"], dtype=object).astype(str), "type": case["kind"] if case["kind"] != "float" else "float"}
                if case["kind"] == "referenced":
                    spec["value_map"] = case["map"]
                    spec["values"] = np.array(case["values"], dtype="uint32")
                if case["kind"] == "boolean":
                    spec["values"] = np.array(case["values"], dtype=bool)
                dat = pts.add_data({"d": spec})
                uid = dat.uid
                live = np.array(dat.values)
            with Workspace(path, mode="r") as ws:
                back = np.array(ws.get_entity(uid)[0].values)
                vmap = ws.get_entity(uid)[0].entity_type.value_map
                vmap = None if vmap is None else dict(vmap.map) if hasattr(vmap, "map") else None
            with h5py.File(path, "r") as f:
                raw = f[list(f)[0]]["Data"]["{" + str(uid) + "}"]["Data"][()]
            exp = case["values"]
            if case["kind"] == "float":
                e = np.array(exp, dtype=float)
                if not np.array_equal(back, e, equal_nan=True) or not np.array_equal(live, e, equal_nan=True):
                    return f"float values {exp} read back as {back.tolist()}"
                rawf = np.asarray(raw, dtype=float)
                for x, r in zip(e, rawf):
                    if np.isnan(x) and not r == np.float64(FLOAT_NDV) and not np.isclose(r, FLOAT_NDV, rtol=1e-7, atol=0):
                        return f"NaN stored as {r!r}, expected the float no-data code"
            elif case["kind"] == "integer":
                if back.tolist() != exp:
                    return f"integer values {exp} read back as {back.tolist()}"
            elif case["kind"] == "boolean":
                if [bool(v) for v in back] != [bool(v) for v in exp] or sorted(set(np.asarray(raw).tolist())) not in ([0], [1], [0, 1]):
                    return f"booleans {exp} read back as {back.tolist()}, stored {np.asarray(raw).tolist()}"
            elif case["kind"] == "referenced":
                if back.tolist() != exp:
                    return f"reference keys {exp} read back as {back.tolist()}"
                if vmap is not None:
                    lab = {int(k): (v.decode() if isinstance(v, bytes) else v) for k, v in vmap.items()}
                    if lab.get(0) != "Unknown" or any(lab.get(k) != v for k, v in case["map"].items()):
                        return f"value map {case['map']} read back as {lab}"
            elif case["kind"] == "text":
                got = back.tolist() if back.ndim else [back.item()]
                if [str(x) for x in got] != exp:
                    return f"text {exp} read back as {got}"
        finally:
            shutil.rmtree(d, ignore_errors=True)
        return None


class OtherValuesRoundTrip(Contract):
    """Bounded stand-in for the remaining value kinds of the property: comments, attached files
    (byte blobs) and metadata dictionaries read back equal to what was written."""
    target = "geoh5py/io/h5_writer.py::H5Writer.write_data_values"
    variant = "comments-files-metadata"
    symbolic = False
    has_native = True
    props = ("C08",)
    bounded_scope = "comments (ASCII, accented, astral, empty author), byte blobs (empty, all 256 byte values, 10 kB pseudo-random, and 1 B / 4 KiB / 1 MiB-1 / 1 MiB / 1 MiB+1 / 3 MiB+5), metadata dictionaries (nested dicts and lists, Unicode keys and values, numbers, booleans, None) on points and groups; entries added to stored metadata in the same and in a later session, before or after it was read there"

    def native_cases(self, tier, rng):
        for texts in (["first"], ["un café", "日本語 𝔘", ""], ["a" * 300, "line\nbreak"]):
            yield {"kind": "comments", "texts": texts}
        yield {"kind": "file", "blob": "empty"}
        yield {"kind": "file", "blob": "all-bytes"}
        yield {"kind": "file", "blob": "random"}
        for size in ("one-byte", "page", "below-1MiB", "1MiB", "above-1MiB", "3MiB"):
            yield {"kind": "file", "blob": size}
        for md in ({"k": "v"}, {"niveau": {"clé": ["é", 1, 2.5, True, None], "deep": {"x": {"y": [1, [2, 3]]}}}, "n": 0, "f": -1.5e-30}, {"": "", "empty": {}, "list": []}):
            yield {"kind": "metadata", "value": md}
        # entries added to stored metadata in a later session (the setter adds to what is there), before or after it was read there
        for read_first in (False, True):
            for same_session in (False, True):
                yield {"kind": "metadata-update", "read_first": read_first, "same_session": same_session}

    def native_check(self, case):
        from geoh5py.groups import ContainerGroup
        from geoh5py.objects import Points
        from geoh5py.workspace import Workspace

        d = tempfile.mkdtemp()
        path = os.path.join(d, "o.geoh5")
        try:
            if case["kind"] == "comments":
                with Workspace.create(path) as ws:
                    p = Points.create(ws, vertices=np.zeros((2, 3)), name="p")
                    for i, t in enumerate(case["texts"]):
                        p.add_comment(t, author=f"auteur {i}" if i else "")
                with Workspace(path, mode="r") as ws:
                    vals = ws.get_entity("p")[0].comments.values
                got = [c["Text"] for c in vals]
                if got != case["texts"]:
                    return f"comments {case['texts']} read back as {got}"
                return None
            if case["kind"] == "file":
                rng = np.random.RandomState(3)
                sizes = {"one-byte": 1, "page": 4096, "below-1MiB": 2 ** 20 - 1, "1MiB": 2 ** 20, "above-1MiB": 2 ** 20 + 1, "3MiB": 3 * 2 ** 20 + 5}
                blob = {"empty": b"", "all-bytes": bytes(range(256)) * 3, "random": rng.bytes(10000)}.get(case["blob"])
                if blob is None:
                    blob = rng.bytes(sizes[case["blob"]])
                src = os.path.join(d, "blob.bin")
                with open(src, "wb") as fh:
                    fh.write(blob)
                with Workspace.create(path) as ws:
                    g = ContainerGroup.create(ws, name="g")
                    try:
                        g.add_file(src)
                    except Exception as exc:
                        return None if not blob else f"attaching a {len(blob)}-byte file raised {type(exc).__name__}: {exc}"
                with Workspace(path, mode="r") as ws:
                    kids = [c for c in ws.get_entity("g")[0].children if type(c).__name__ == "FilenameData"]
                    back = None if not kids else kids[0].values
                    name = None if not kids else kids[0].file_name
                if back is None or bytes(back) != blob or name != "blob.bin":
                    return f"attached file of {len(blob)} bytes read back as {None if back is None else len(bytes(back))} bytes (name {name!r})"
                return None
            if case["kind"] == "metadata-update":
                first, more = {"survey": "2021", "crew": {"lead": "A"}}, {"processed": True, "crew": {"lead": "B", "n": 3}}
                want = dict(first)
                want.update(more)
                with Workspace.create(path) as ws:
                    p = Points.create(ws, vertices=np.zeros((2, 3)), name="p")
                    g = ContainerGroup.create(ws, name="g")
                    p.metadata, g.metadata = dict(first), dict(first)
                    if case["same_session"]:
                        p.metadata, g.metadata = dict(more), dict(more)
                if not case["same_session"]:
                    with Workspace(path, mode="r+") as ws:
                        for nm in ("p", "g"):
                            e = ws.get_entity(nm)[0]
                            if case["read_first"]:
                                _ = e.metadata
                            e.metadata = dict(more)
                            if e.metadata != want:
                                return f"metadata of {nm} holding {first} was given {more} in a later session ({'after' if case['read_first'] else 'before'} being read there): it now holds {e.metadata}, expected {want} ({case})"
                with Workspace(path, mode="r") as ws:
                    for nm in ("p", "g"):
                        back = ws.get_entity(nm)[0].metadata
                        if back != want:
                            return f"metadata of {nm}: {first} then {more} were written; a later reader sees {back}, expected {want} ({case})"
                return None
            md = case["value"]
            with Workspace.create(path) as ws:
                p = Points.create(ws, vertices=np.zeros((2, 3)), name="p")
                p.metadata = md
                g = ContainerGroup.create(ws, name="g")
                g.metadata = md
            with Workspace(path, mode="r") as ws:
                for nm in ("p", "g"):
                    back = ws.get_entity(nm)[0].metadata
                    if back != md:
                        return f"metadata of {nm}: wrote {md!r}, read back {back!r}"
        finally:
            shutil.rmtree(d, ignore_errors=True)
        return None


class LengthCheckAfterReopen(Contract):
    """Bounded stand-in: "more entries than the geometry has" is refused for every object class, also
    on an object that was just loaded from a file and whose geometry has not been touched yet (the
    element count must not depend on a cache that is filled on demand)."""
    target = "geoh5py/data/numeric_data.py::NumericData.format_length"
    variant = "length-check-after-reopen"
    symbolic = False
    has_native = True
    props = ("C08", "C07")
    bounded_scope = "Points, Curve, Surface, Grid2D, BlockModel, Octree: one entry too many / exact / one too few, for vertex or cell data, in the creating session and straight after a re-open (exhaustive over the listed classes)"

    KINDS = ("points", "curve", "surface", "grid2d", "blockmodel", "octree")

    def native_cases(self, tier, rng):
        for kind in self.KINDS:
            for reopened in (False, True):
                for delta in (1, 0, -1):
                    yield {"kind": kind, "reopened": reopened, "delta": delta}

    @staticmethod
    def _make(ws, kind):
        from geoh5py.objects import BlockModel, Curve, Grid2D, Octree, Points, Surface

        v = np.c_[np.arange(5.0), np.arange(5.0) ** 2, np.zeros(5)]
        if kind == "points":
            return Points.create(ws, name="o", vertices=v), "VERTEX", 5
        if kind == "curve":
            return Curve.create(ws, name="o", vertices=v), "CELL", 4
        if kind == "surface":
            return Surface.create(ws, name="o", vertices=v, cells=np.array([[0, 1, 2], [1, 2, 3], [2, 3, 4]], dtype="uint32")), "CELL", 3
        if kind == "grid2d":
            return Grid2D.create(ws, name="o", u_count=3, v_count=2, u_cell_size=1.0, v_cell_size=1.0), "CELL", 6
        if kind == "blockmodel":
            return BlockModel.create(ws, name="o", u_cell_delimiters=np.arange(3.0), v_cell_delimiters=np.arange(3.0), z_cell_delimiters=np.arange(2.0)), "CELL", 4
        return Octree.create(ws, name="o", u_count=2, v_count=2, w_count=2, u_cell_size=1.0, v_cell_size=1.0, w_cell_size=1.0), "CELL", 8

    def native_check(self, case):
        from geoh5py.workspace import Workspace

        d = tempfile.mkdtemp()
        path = os.path.join(d, "n.geoh5")
        try:
            ws = Workspace.create(path)
            obj, assoc, n = self._make(ws, case["kind"])
            n = int(obj.n_vertices if assoc == "VERTEX" else obj.n_cells)  # as reported in the creating session
            if case["reopened"]:
                ws.close()
                ws = Workspace(path, mode="r+")
                obj = ws.get_entity("o")[0]  # nothing of its geometry is read before the data are added
            m = n + case["delta"]
            try:
                dat = obj.add_data({"d": {"values": np.arange(m, dtype=float), "association": assoc}})
            except ValueError:
                ws.close()
                return None if case["delta"] > 0 else f"{m} values refused for {n} elements ({case})"
            got = None if dat.values is None else len(dat.values)
            ws.close()
            if case["delta"] > 0:
                return f"{m} values accepted for an object with {n} {assoc.lower()} elements (stored {got}) ({case})"
            if got != n:
                return f"data hold {got} entries for {n} elements ({case})"
        finally:
            shutil.rmtree(d, ignore_errors=True)
        return None


class PaddingRoundTrip(Contract):
    """Bounded stand-in: vertex data shorter than the geometry are padded with the class's no-data
    marker (NaN -> stored float code; the integer code for integer data) whatever the NumPy dtype
    of the input, and the supplied entries read back unchanged: in memory, in the raw dataset and
    from a fresh workspace."""
    target = "geoh5py/data/numeric_data.py::NumericData.format_length"
    variant = "padding-round-trip"
    symbolic = False
    has_native = True
    props = ("C08",)
    bounded_scope = "6-vertex cloud, 1-5 supplied values; float data from float16/32/64, integer data from (u)int8/16/32/64 and integral floats (exhaustive over the listed dtypes)"

    FLOATS = ("float16", "float32", "float64")
    INTS = ("int8", "int16", "int32", "int64", "uint8", "uint16", "uint32", "float32", "float64")

    def native_cases(self, tier, rng):
        for m in (1, 3, 5):
            for dt in self.FLOATS:
                yield {"kind": "float", "dtype": dt, "m": m}
            for dt in self.INTS:
                yield {"kind": "integer", "dtype": dt, "m": m}

    def native_check(self, case):
        import h5py

        from geoh5py.objects import Points
        from geoh5py.shared import FLOAT_NDV, INTEGER_NDV
        from geoh5py.workspace import Workspace

        n, m = 6, case["m"]
        base = (np.arange(m) + 1) if case["dtype"].startswith("u") else (np.arange(m) - 1) * 3
        arr = (base + (0.5 if case["kind"] == "float" else 0)).astype(case["dtype"])
        gap_mem = np.nan if case["kind"] == "float" else float(INTEGER_NDV)
        gap_raw = float(np.float64(FLOAT_NDV)) if case["kind"] == "float" else float(INTEGER_NDV)
        d = tempfile.mkdtemp()
        path = os.path.join(d, "pad.geoh5")
        try:
            with Workspace.create(path) as ws:
                pts = Points.create(ws, vertices=np.zeros((n, 3)))
                dat = pts.add_data({"d": {"values": arr.copy(), "type": case["kind"], "association": "VERTEX"}})
                uid = dat.uid
                live = np.asarray(dat.values, dtype=float)
            with h5py.File(path, "r") as f:
                raw = np.asarray(f[list(f)[0]]["Data"]["{" + str(uid) + "}"]["Data"][()], dtype=float)
            with Workspace(path, mode="r") as ws:
                back = np.asarray(ws.get_entity(uid)[0].values, dtype=float)
            exp = np.r_[arr.astype(float), [gap_mem] * (n - m)]
            expr = np.r_[arr.astype(float), [gap_raw] * (n - m)]
            for label, got, want in (("in memory", live, exp), ("re-opened", back, exp)):
                if got.shape != want.shape or not np.array_equal(got, want, equal_nan=True):
                    return f"{label}: {case['kind']} data from {case['dtype']} {arr.tolist()} padded to {n} reads {got.tolist()}, expected {want.tolist()}"
            if raw.shape != expr.shape or not (np.allclose(raw[:m], expr[:m]) and np.allclose(raw[m:], expr[m:], rtol=1e-6, atol=0)):
                return f"stored: {case['kind']} data from {case['dtype']} {arr.tolist()} is stored as {raw.tolist()}, expected {expr.tolist()} (gaps = the format's no-data code)"
        finally:
            shutil.rmtree(d, ignore_errors=True)
        return None


CONTRACTS = [IntegerFormatType, BooleanFormatType, FormatValuesLength, StorageRoundTrip, OtherValuesRoundTrip, LengthCheckAfterReopen, PaddingRoundTrip]


class CallerValuesUntouched(Contract):
    """Assigning values never alters the array the caller hands in -- in particular not the values of
    another data set (`b.values = a.values`): what a data set is given is converted on the way in,
    on a copy."""
    target = "geoh5py/data/numeric_data.py::NumericData.format_values"
    variant = "caller-array-untouched"
    symbolic = False
    has_native = True
    props = ("C08", "C12")
    bounded_scope = "float / integer / boolean / referenced / text data on a 4-vertex cloud; caller arrays of float64 (with and without NaN), float32, int32, int64, bool, 2-D (4,1); assigned at creation and to an existing data set; and the values of one data set assigned to another of each class (exhaustive over the listed combinations)"

    def native_cases(self, tier, rng):
        arrays = ("float64-nan", "float64", "float32-nan", "int32", "int64", "bool", "float64-2d-nan", "short-nan")
        for cls in ("float", "integer", "boolean", "referenced"):
            for arr in arrays:
                for how in ("create", "assign"):
                    yield {"cls": cls, "array": arr, "how": how}
        for src in ("float", "integer"):
            for dst in ("float", "integer", "referenced"):
                yield {"cls": dst, "array": "from-" + src, "how": "assign"}

    def native_check(self, case):
        from geoh5py.objects import Points
        from geoh5py.workspace import Workspace

        def make(name):
            return {
                "float64-nan": np.array([1.0, np.nan, 0.0, 1.0]), "float64": np.array([1.0, 0.0, 0.0, 1.0]), "float32-nan": np.array([1.0, np.nan, 0.0, 1.0], dtype="float32"),
                "int32": np.array([1, 0, 0, 1], dtype="int32"), "int64": np.array([1, 0, 0, 1], dtype="int64"), "bool": np.array([True, False, False, True]),
                "float64-2d-nan": np.array([[1.0], [np.nan], [0.0], [1.0]]), "short-nan": np.array([np.nan, 1.0]),
            }[name]

        with Workspace() as ws:
            p = Points.create(ws, vertices=np.arange(12.0).reshape(4, 3))
            extra = {"float": {}, "integer": {"type": "integer"}, "boolean": {"type": "boolean"}, "referenced": {"type": "referenced", "value_map": {1: "A"}}}[case["cls"]]
            other = None
            if case["array"].startswith("from-"):
                src_cls = case["array"][5:]
                other = p.add_data({"src": {"values": np.array([1.0, np.nan, 0.0, 1.0]) if src_cls == "float" else np.array([1, 0, 0, 1], dtype="int32"), **({"type": "integer"} if src_cls == "integer" else {})}})
                mine = other.values
            else:
                mine = make(case["array"])
            snapshot = np.array(mine, copy=True)
            try:
                if case["how"] == "create":
                    p.add_data({"d": {"values": mine, **extra}})
                else:
                    start = np.array([1, 0, 0, 1]) if case["cls"] != "float" else np.array([1.0, 0.0, 0.0, 1.0])
                    d = p.add_data({"d": {"values": start.astype("int32") if case["cls"] in ("integer", "referenced") else (start.astype(bool) if case["cls"] == "boolean" else start), **extra}})
                    d.values = mine
            except Exception:
                pass  # a refusal is fine; the caller's array is its own either way
            if mine.shape != snapshot.shape or mine.dtype != snapshot.dtype or not np.array_equal(mine, snapshot, equal_nan=(mine.dtype.kind == "f")):
                return f"assigning values to {case['cls']} data changed the caller's array from {snapshot.tolist()} to {mine.tolist()} ({case})"
            if other is not None and not np.array_equal(np.asarray(other.values), snapshot, equal_nan=(snapshot.dtype.kind == "f")):
                return f"assigning the values of one data set to {case['cls']} data changed the source data set to {np.asarray(other.values).tolist()} ({case})"
            # ... and the data set holds an array of its own: what the caller (or the other data set) does to its array afterwards,
            # and what is done in place to the array this data set hands out, stays where it is done
            got = [c for c in p.children if getattr(c, "name", None) == "d"]
            if got and got[0].values is not None and mine.dtype.kind in "fiu" and mine.ndim == 1 and len(mine) == 4:
                d = got[0]
                held = np.array(d.values, copy=True)
                mine[0] = 77
                if not np.array_equal(np.asarray(d.values), held, equal_nan=(held.dtype.kind == "f")):
                    return f"{case['cls']} data given an array: editing that array in place afterwards changed the data set to {np.asarray(d.values).tolist()} ({case})"
                mine[0] = snapshot[0]
                handed = d.values
                handed[3] = 55
                if other is not None and not np.array_equal(np.asarray(other.values), snapshot, equal_nan=(snapshot.dtype.kind == "f")):
                    return f"editing in place the array {case['cls']} data hands out changed the data set its values came from to {np.asarray(other.values).tolist()} ({case})"
                if not np.array_equal(mine, snapshot, equal_nan=(mine.dtype.kind == "f")):
                    return f"editing in place the array {case['cls']} data hands out changed the caller's array to {mine.tolist()} ({case})"
        return None


CONTRACTS = CONTRACTS + [CallerValuesUntouched]


class RefusedCreationsLeaveNothing(Contract):
    """A value array that is refused at creation (more entries than the geometry has, vertices of the
    wrong shape) is rejected as a whole: no half-built data or object stays among its parent's
    children, and nothing of it reaches the file."""
    target = "geoh5py/shared/entity.py::Entity.__init__"
    variant = "refused-creations"
    symbolic = False
    has_native = True
    props = ("C08", "C07")
    bounded_scope = "a point cloud / a curve (5 vertices) in a group; add_data with 9 vertex values, 9 cell values, text of 9 entries; an object created under the group with vertices of shape (3, 2); the parent's children before and after the refusal, and after a re-open (exhaustive)"

    def native_cases(self, tier, rng):
        for kind in ("points", "curve"):
            for what in ("vertex-values-too-long", "cell-values-too-long", "text-too-long", "object-with-bad-vertices"):
                if kind == "points" and what == "cell-values-too-long":
                    continue
                yield {"kind": kind, "what": what}

    def native_check(self, case):
        import gc

        from geoh5py.groups import ContainerGroup
        from geoh5py.objects import Curve, Points
        from geoh5py.workspace import Workspace

        d = tempfile.mkdtemp()
        try:
            path = os.path.join(d, "r.geoh5")
            with Workspace.create(path) as ws:
                g = ContainerGroup.create(ws, name="g")
                cls = Points if case["kind"] == "points" else Curve
                o = cls.create(ws, name="o", vertices=np.arange(15.0).reshape(5, 3), parent=g)
                o.add_data({"good": {"values": np.arange(5.0)}})
                before = (sorted(c.name for c in g.children), sorted(c.name for c in o.children))
                try:
                    if case["what"] == "vertex-values-too-long":
                        o.add_data({"bad": {"values": np.arange(9.0), "association": "VERTEX"}})
                    elif case["what"] == "cell-values-too-long":
                        o.add_data({"bad": {"values": np.arange(9.0), "association": "CELL"}})
                    elif case["what"] == "text-too-long":
                        o.add_data({"bad": {"values": np.array([f"t{i}" for i in range(9)]), "association": "VERTEX", "type": "text"}})
                    else:
                        Points.create(ws, name="bad", parent=g, vertices=np.zeros((3, 2)))
                    return None if case["what"] == "text-too-long" else f"{case['what']}: accepted ({case})"  # (text length is C08's text clause: not refused today, not claimed)
                except Exception:
                    pass
                gc.collect()
                after = (sorted(c.name for c in g.children), sorted(c.name for c in o.children))
                if after != before:
                    return f"after a refused creation ({case['what']}) the parents list {after}, before the attempt {before} ({case})"
                del o, g
            with Workspace(path, mode="r") as ws:
                g = ws.get_entity("g")[0]
                later = (sorted(c.name for c in g.children), sorted(c.name for c in ws.get_entity("o")[0].children))
                if later != before:
                    return f"a creation that was refused ({case['what']}) is in the file: a later reader finds {later}, the session showed {before} ({case})"
            return None
        finally:
            shutil.rmtree(d, ignore_errors=True)


CONTRACTS = CONTRACTS + [RefusedCreationsLeaveNothing]


class ConcatenatedNoDataCode(Contract):
    """Float logs of holes in a drillhole group: a gap (NaN) is stored as the format's float no-data
    code -- never as a raw NaN -- whatever the number of samples of the log, and reads back as NaN."""
    target = "geoh5py/io/h5_writer.py::H5Writer.update_concatenated_field"
    variant = "no-data-code"
    symbolic = False
    has_native = True
    props = ("C08",)
    bounded_scope = "one hole, depth logs of 1, 2, 3 and 5 samples with {no gap, one gap, only gaps}; both format versions; the stored arrays read with h5py (no NaN, gaps equal to the float no-data code) and the values read back through the library (exhaustive)"

    def native_cases(self, tier, rng):
        for n in (1, 2, 3, 5):
            for gaps in ("none", "one", "all"):
                for version in (2.0, 2.1):
                    yield {"n": n, "gaps": gaps, "version": version}

    def native_check(self, case):
        import h5py

        from geoh5py.groups import DrillholeGroup
        from geoh5py.objects import Drillhole
        from geoh5py.workspace import Workspace

        d = tempfile.mkdtemp()
        try:
            path = os.path.join(d, "n.geoh5")
            vals = np.arange(case["n"], dtype=float) + 1.5
            if case["gaps"] == "one":
                vals[case["n"] // 2] = np.nan
            elif case["gaps"] == "all":
                vals[:] = np.nan
            with Workspace.create(path, version=case["version"]) as ws:
                dg = DrillholeGroup.create(ws, name="dg")
                h = Drillhole.create(ws, parent=dg, name="h", collar=[0.0, 0.0, 0.0])
                h.add_data({"log": {"depth": np.arange(case["n"], dtype=float) + 1.0, "values": vals.copy()}})
            with h5py.File(path, "r") as f:
                proj = f[list(f)[0]]
                for key in proj["Groups"]:
                    node = proj["Groups"][key]
                    if "Concatenated Data" not in node or "Data" not in node["Concatenated Data"]:
                        continue
                    data = node["Concatenated Data"]["Data"]
                    if "log" not in data:
                        return f"the log is not among the stored arrays {sorted(data)} ({case})"
                    raw = np.asarray(data["log"][:], dtype=float)
                    if np.isnan(raw).any():
                        return f"a float log of {case['n']} sample(s) with gaps '{case['gaps']}' is stored as {raw.tolist()}: a raw NaN instead of the no-data code ({case})"
                    want_gap = np.isnan(vals)
                    if len(raw) != len(vals) or not np.allclose(raw[~want_gap], vals[~want_gap]) or not np.allclose(raw[want_gap], 1.17549435e-38, rtol=1e-6, atol=0.0):
                        return f"a float log {vals.tolist()} is stored as {raw.tolist()} ({case})"
            with Workspace(path, mode="r") as ws:
                back = np.asarray(ws.get_entity("h")[0].get_data("log")[0].values, dtype=float)
                if back.shape != vals.shape or not np.allclose(back, vals, equal_nan=True):
                    return f"a float log {vals.tolist()} reads back as {back.tolist()} ({case})"
            return None
        finally:
            shutil.rmtree(d, ignore_errors=True)


CONTRACTS = CONTRACTS + [ConcatenatedNoDataCode]
